package verifc44_test

// Demonstration for property C44 on the real tenant service (in-memory kv store): with a current
// password of exactly 72 bytes, CompareAndSetPassword accepts "current password + any suffix" as the old
// password (bcrypt only reads 72 bytes and this path has no length check) and changes the password.

import (
	"context"
	"strings"
	"testing"

	"github.com/influxdata/influxdb/v2"
	"github.com/influxdata/influxdb/v2/tenant"
	influxdbtesting "github.com/influxdata/influxdb/v2/testing"
)

func TestVerifC44_CompareAndSetWithWrongOldPassword(t *testing.T) {
	ctx := context.Background()
	s := influxdbtesting.NewTestInmemStore(t)
	svc := tenant.NewService(tenant.NewStore(s))
	u := &influxdb.User{Name: "u", Status: influxdb.Active}
	if err := svc.CreateUser(ctx, u); err != nil {
		t.Fatal(err)
	}
	current := "Aa1!" + strings.Repeat("k", 68) // 72 bytes
	if err := svc.SetPassword(ctx, u.ID, current); err != nil {
		t.Fatal(err)
	}
	if err := svc.CompareAndSetPassword(ctx, u.ID, current+"x", "Another#Passw0rd"); err == nil {
		t.Fatalf("CompareAndSetPassword accepted an old password that is not the current one and changed the password")
	}
	if err := svc.ComparePassword(ctx, u.ID, current); err != nil {
		t.Fatalf("the current password no longer verifies: %v", err)
	}
}
