package tsm1

// Demonstration for property C03 against the real engine (real WAL, cache, compactor, file store on a
// temp dir): a range delete that returns success between doWriteSnapshot's Cache.Snapshot() and its
// FileStore.Replace() does not reach the values held in the in-flight snapshot; once the snapshot is
// committed the deleted points are readable again, and they stay after the shard is reopened.
//
// The three steps below are exactly the body of Engine.doWriteSnapshot, split where it releases e.mu.

import (
	"context"
	"path/filepath"
	"testing"
	"time"

	"github.com/influxdata/influxdb/v2/models"
	"github.com/influxdata/influxdb/v2/tsdb"
	"github.com/influxdata/influxql"
	"github.com/stretchr/testify/require"
	"go.uber.org/zap"
)

type verifSeriesElem struct {
	name []byte
	tags models.Tags
}

func (e verifSeriesElem) Name() []byte        { return e.name }
func (e verifSeriesElem) Tags() models.Tags   { return e.tags }
func (e verifSeriesElem) Deleted() bool       { return false }
func (e verifSeriesElem) Expr() influxql.Expr { return nil }

type verifSeriesIter struct{ elems []verifSeriesElem }

func (it *verifSeriesIter) Close() error { return nil }
func (it *verifSeriesIter) Next() (tsdb.SeriesElem, error) {
	if len(it.elems) == 0 {
		return nil, nil
	}
	e := it.elems[0]
	it.elems = it.elems[1:]
	return e, nil
}

func verifReadAll(t *testing.T, e *Engine, key []byte) []int64 {
	var ts []int64
	for _, v := range e.Cache.Values(key) {
		ts = append(ts, v.UnixNano())
	}
	c := e.KeyCursor(context.Background(), key, 0, true)
	defer c.Close()
	for {
		vals, err := c.ReadFloatBlock(&[]FloatValue{})
		require.NoError(t, err)
		if len(vals) == 0 {
			break
		}
		for _, v := range vals {
			ts = append(ts, v.UnixNano())
		}
		c.Next()
	}
	return ts
}

func TestVerifC03_DeleteDuringSnapshot(t *testing.T)      { verifC03(t, false) }
func TestVerifC03_DeleteAfterFailedSnapshot(t *testing.T) { verifC03(t, true) }

func verifC03(t *testing.T, failFirst bool) {
	tmpDir := t.TempDir()
	tmpShard := filepath.Join(tmpDir, "shard")
	tmpWal := filepath.Join(tmpDir, "wal")
	sfile := NewSeriesFile(t, tmpDir)
	defer sfile.Close()

	opts := tsdb.NewEngineOptions()
	opts.Config.WALDir = tmpWal
	opts.SeriesIDSets = seriesIDSets([]*tsdb.SeriesIDSet{})
	sh := tsdb.NewShard(1, tmpShard, tmpWal, sfile, opts)
	require.NoError(t, sh.Open(context.Background()))

	tags := models.NewTags(map[string]string{"host": "a"})
	var points []models.Point
	for i := 1; i <= 4; i++ {
		points = append(points, models.MustNewPoint("cpu", tags, map[string]interface{}{"value": float64(i)}, time.Unix(0, int64(i))))
	}
	require.NoError(t, sh.WritePoints(context.Background(), points))
	ei, err := sh.Engine()
	require.NoError(t, err)
	e := ei.(*Engine)
	key := SeriesFieldKeyBytes(string(models.MakeKey([]byte("cpu"), tags)), "value")
	require.Equal(t, []int64{1, 2, 3, 4}, verifReadAll(t, e, key))

	// doWriteSnapshot, part 1 (under e.mu): close the WAL segment, take the cache snapshot
	e.mu.Lock()
	require.NoError(t, e.WAL.CloseSegment())
	closed, err := e.WAL.ClosedSegments()
	require.NoError(t, err)
	snapshot, err := e.Cache.Snapshot()
	require.NoError(t, err)
	e.mu.Unlock()

	if failFirst {
		// the TSM write failed (disk full, compactions disabled, ...): writeSnapshotAndCommit's error
		// path keeps the snapshot for a retry
		e.Cache.ClearSnapshot(false)
	}

	// a delete of timestamps [2,3] of that series runs to completion here and returns success
	itr := &verifSeriesIter{elems: []verifSeriesElem{{name: []byte("cpu"), tags: tags}}}
	require.NoError(t, e.DeleteSeriesRange(context.Background(), itr, 2, 3))

	if failFirst {
		// next compactCache tick: Cache.Snapshot returns the retained snapshot
		e.mu.Lock()
		snapshot, err = e.Cache.Snapshot()
		require.NoError(t, err)
		e.mu.Unlock()
	}

	// doWriteSnapshot, part 2: write the snapshot and commit it to the file store
	snapshot.Deduplicate()
	require.NoError(t, e.writeSnapshotAndCommit(zap.NewNop(), closed, snapshot))

	got := verifReadAll(t, e, key)
	t.Logf("timestamps readable after delete [2,3] + snapshot commit: %v", got)
	after := append([]int64(nil), got...)

	require.NoError(t, sh.Close())
	sh2 := tsdb.NewShard(1, tmpShard, tmpWal, sfile, opts)
	require.NoError(t, sh2.Open(context.Background()))
	defer sh2.Close()
	ei2, err := sh2.Engine()
	require.NoError(t, err)
	got2 := verifReadAll(t, ei2.(*Engine), key)
	t.Logf("timestamps readable after reopen: %v", got2)

	require.Equal(t, []int64{1, 4}, after, "deleted points must not be readable after the snapshot commit")
	require.Equal(t, []int64{1, 4}, got2, "deleted points must not be readable after reopen")
}
