package tsdb

// Demonstration for property C10 against the real MeasurementFieldSet (fields.idx + fields.idxl on a
// temp dir): the change-log record written for a dropped measurement is empty, so after an unclean
// restart the dropped measurement's field schema is back.

import (
	"path/filepath"
	"testing"

	"github.com/influxdata/influxql"
	"github.com/stretchr/testify/require"
)

func TestVerifC10_DropMeasurementUncleanRestart(t *testing.T) {
	path := filepath.Join(t.TempDir(), "fields.idx")

	fs, err := NewMeasurementFieldSet(path, nil)
	require.NoError(t, err)
	f, created, err := fs.CreateFieldsIfNotExists([]byte("cpu")).CreateFieldIfNotExists("value", influxql.Float)
	require.NoError(t, err)
	require.True(t, created)
	require.NoError(t, fs.Save(FieldChanges{{FieldCreate: FieldCreate{Measurement: []byte("cpu"), Field: f}, ChangeType: AddMeasurementField}}))
	require.NoError(t, fs.Close()) // clean shutdown: fields.idx holds cpu.value=float

	fs, err = NewMeasurementFieldSet(path, nil)
	require.NoError(t, err)
	require.NotNil(t, fs.Fields([]byte("cpu")))
	// DROP MEASUREMENT cpu, as Engine.deleteMeasurement / DeleteSeriesRange do it
	fs.Delete("cpu")
	require.NoError(t, fs.Save(MeasurementsToFieldChangeDeletions([]string{"cpu"}))) // acknowledged
	require.Nil(t, fs.Fields([]byte("cpu")))
	// the process dies here: no Close

	fs2, err := NewMeasurementFieldSet(path, nil)
	require.NoError(t, err)
	defer fs2.Close()
	require.Nil(t, fs2.Fields([]byte("cpu")), "the schema of a dropped measurement must stay removed after a restart")
}
