package tsm1

// Demonstration for property C40 on the real shard/engine: a point carrying a field named "time"
// next to a valid field is accepted with the message that the field "has been stripped from point",
// yet the engine stores the value of that field.

import (
	"context"
	"path/filepath"
	"testing"
	"time"

	"github.com/influxdata/influxdb/v2/models"
	"github.com/influxdata/influxdb/v2/tsdb"
	"github.com/stretchr/testify/require"
)

func TestVerifC40_TimeFieldIsNotStored(t *testing.T) {
	tmpDir := t.TempDir()
	sfile := NewSeriesFile(t, tmpDir)
	defer sfile.Close()
	opts := tsdb.NewEngineOptions()
	opts.Config.WALDir = filepath.Join(tmpDir, "wal")
	opts.SeriesIDSets = seriesIDSets([]*tsdb.SeriesIDSet{})
	sh := tsdb.NewShard(1, filepath.Join(tmpDir, "shard"), filepath.Join(tmpDir, "wal"), sfile, opts)
	require.NoError(t, sh.Open(context.Background()))
	defer sh.Close()

	tags := models.NewTags(map[string]string{"host": "a"})
	p := models.MustNewPoint("cpu", tags, map[string]interface{}{"value": 1.0, "time": 5.0}, time.Unix(0, 1))
	err := sh.WritePoints(context.Background(), []models.Point{p})
	t.Logf("WritePoints: %v", err)
	ei, err2 := sh.Engine()
	require.NoError(t, err2)
	e := ei.(*Engine)
	series := string(models.MakeKey([]byte("cpu"), tags))
	require.Len(t, e.Cache.Values(SeriesFieldKeyBytes(series, "value")), 1, "the valid field is stored")
	require.Len(t, e.Cache.Values(SeriesFieldKeyBytes(series, "time")), 0, "the stripped field must not be stored")
}
