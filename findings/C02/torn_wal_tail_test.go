package tsm1

// Demonstration for property C02 against the real shard/engine/WAL on a temp dir: after a crash left
// a torn tail in the newest WAL segment, the reopened shard discards the tail (correct) but keeps
// appending to the segment at the offset it had BEFORE the truncation, leaving a hole; the write
// acknowledged after the recovery is lost at the next reopen.

import (
	"context"
	"os"
	"path/filepath"
	"testing"
	"time"

	"github.com/influxdata/influxdb/v2/models"
	"github.com/influxdata/influxdb/v2/tsdb"
	"github.com/stretchr/testify/require"
)

func verifC02Read(t *testing.T, sh *tsdb.Shard, key []byte) []int64 {
	ei, err := sh.Engine()
	require.NoError(t, err)
	var ts []int64
	for _, v := range ei.(*Engine).Cache.Values(key) {
		ts = append(ts, v.UnixNano())
	}
	return ts
}

func TestVerifC02_WriteAfterTornTailRecovery(t *testing.T) {
	tmpDir := t.TempDir()
	tmpShard := filepath.Join(tmpDir, "shard")
	tmpWal := filepath.Join(tmpDir, "wal")
	sfile := NewSeriesFile(t, tmpDir)
	defer sfile.Close()
	opts := tsdb.NewEngineOptions()
	opts.Config.WALDir = tmpWal
	opts.SeriesIDSets = seriesIDSets([]*tsdb.SeriesIDSet{})
	tags := models.NewTags(map[string]string{"host": "a"})
	key := SeriesFieldKeyBytes(string(models.MakeKey([]byte("cpu"), tags)), "value")
	pt := func(i int) []models.Point {
		return []models.Point{models.MustNewPoint("cpu", tags, map[string]interface{}{"value": float64(i)}, time.Unix(0, int64(i)))}
	}

	sh := tsdb.NewShard(1, tmpShard, tmpWal, sfile, opts)
	require.NoError(t, sh.Open(context.Background()))
	for i := 1; i <= 3; i++ {
		require.NoError(t, sh.WritePoints(context.Background(), pt(i))) // acknowledged (fsynced)
	}
	require.NoError(t, sh.Close())

	// crash mid-write: the last entry of the newest segment is torn
	segs, err := filepath.Glob(filepath.Join(tmpWal, "*.wal"))
	require.NoError(t, err)
	require.NotEmpty(t, segs)
	last := segs[len(segs)-1]
	st, err := os.Stat(last)
	require.NoError(t, err)
	require.NoError(t, os.Truncate(last, st.Size()-7))

	// reopen: entries 1 and 2 are recovered, the torn third entry is discarded
	sh = tsdb.NewShard(1, tmpShard, tmpWal, sfile, opts)
	require.NoError(t, sh.Open(context.Background()))
	require.Equal(t, []int64{1, 2}, verifC02Read(t, sh, key))
	require.NoError(t, sh.WritePoints(context.Background(), pt(4))) // acknowledged after the recovery
	require.Equal(t, []int64{1, 2, 4}, verifC02Read(t, sh, key))
	require.NoError(t, sh.Close())

	sh = tsdb.NewShard(1, tmpShard, tmpWal, sfile, opts)
	require.NoError(t, sh.Open(context.Background()))
	defer sh.Close()
	got := verifC02Read(t, sh, key)
	t.Logf("timestamps after second reopen: %v", got)
	require.Equal(t, []int64{1, 2, 4}, got, "the write acknowledged after the torn-tail recovery must survive a reopen")
}
