package check

import (
	"context"
	"time"

	vrt "github.com/influxdata/influxdb/v2/internal/zzverifrt"
)

var verifGateNames = []string{"engine", "api", "tasks"}

func verifFindCheck(r Response, name string) (Status, bool) {
	var st Status
	found := false
	for _, c := range r.Checks() {
		if c.Name() == name {
			st, found = c.Status(), true
		}
	}
	return st, found
}

// VerifC33_ReadyGates: K gates in arbitrary initial states, S arbitrary signal/un-signal steps on chosen
// gates; after every step the aggregate is pass exactly when every gate is ready, each gate is listed
// once with its own state, and failing gates sort first.
func VerifC33_ReadyGates() {
	K := vrt.Bound("K", 2)
	S := vrt.Bound("S", 2)
	c := NewCheck()
	gates := make([]*ReadyGate, K)
	model := make([]bool, K)
	for i := 0; i < K; i++ {
		gates[i] = NewReadyGate(verifGateNames[i])
		c.AddNamedReadyCheck(gates[i])
		if vrt.Bool(vrt.N("init", i)) {
			gates[i].Ready()
			model[i] = true
		}
	}
	ctx := context.Background()
	for s := 0; s <= S; s++ {
		if s > 0 {
			g := vrt.Choose(vrt.N("gate", s), 0, K-1)
			if vrt.Bool(vrt.N("signal", s)) {
				gates[g].Ready()
				model[g] = true
			} else {
				gates[g].Unready()
				model[g] = false
			}
		}
		all := true
		for i := 0; i < K; i++ {
			all = all && model[i]
		}
		r := c.CheckReady(ctx)
		vrt.Assert((r.Status() == StatusPass) == all, "ready: pass exactly when every gate is ready")
		vrt.Assert(len(r.Checks()) == K, "ready: every gate listed once")
		for i := 0; i < K; i++ {
			st, ok := verifFindCheck(r, verifGateNames[i])
			vrt.Assert(ok, "ready: gate present in the listing")
			vrt.Assert((st == StatusPass) == model[i], "ready: listed state is the gate's state")
		}
		cs := r.Checks()
		for i := 1; i < len(cs); i++ {
			vrt.Assert(!(cs[i-1].Status() == StatusPass && cs[i].Status() != StatusPass), "ready: failing gates listed first")
		}
	}
	names := c.ReadyCheckNames()
	vrt.Assert(len(names) == K, "ready: registered names")
	vrt.Reach("end")
}

// VerifC33_Health: overall health is pass exactly when every check passes.
func VerifC33_Health() {
	K := vrt.Bound("K", 3)
	c := NewCheck()
	ok := make([]bool, K)
	all := true
	for i := 0; i < K; i++ {
		ok[i] = vrt.Bool(vrt.N("ok", i))
		pass := ok[i]
		fn := CheckerFunc(func(context.Context) Response {
			if pass {
				return Pass()
			}
			return Fail("broken")
		})
		if vrt.Choose(vrt.N("named", i), 0, 1) == 1 {
			c.AddHealthCheck(Named(verifGateNames[i], fn))
		} else {
			c.AddHealthCheck(fn)
		}
		all = all && ok[i]
	}
	r := c.CheckHealth(context.Background())
	vrt.Assert((r.Status() == StatusPass) == all, "health: pass exactly when every check passes")
	vrt.Assert(len(r.Checks()) == K, "health: every check listed")
	nfail := 0
	for _, x := range r.Checks() {
		if x.Status() != StatusPass {
			nfail++
			vrt.Assert(x.Message() == "broken", "health: failing check carries its message")
		}
	}
	want := 0
	for i := 0; i < K; i++ {
		if !ok[i] {
			want++
		}
	}
	vrt.Assert(nfail == want, "health: number of failing checks")
	vrt.Reach("end")
}

// clock stubs: arbitrary non-decreasing instants
var verifClockN int
var verifClockLast int64

func verifNow() time.Time {
	verifClockN++
	t := vrt.Int64(vrt.N("now", verifClockN))
	vrt.Assume(t >= verifClockLast)
	vrt.Assume(t < 4000000000000000000) // before year 2096, after 1970
	verifClockLast = t
	return time.Unix(0, t)
}

func verifSince(t time.Time) time.Duration { return verifNow().Sub(t) }

// VerifC33_Freshness: a freshness-wrapped probe result is reported only while it is younger than the
// staleness threshold; before the first probe and after the threshold it fails.
func VerifC33_Freshness() {
	verifClockN, verifClockLast = 0, 0
	stale := time.Duration(vrt.Int64("staleness"))
	vrt.Assume(stale > 0)
	f := NewFreshnessResponse("probe", stale)
	vrt.Assert(f.Status() == StatusFail, "freshness: no probe yet fails")
	inner := vrt.Bool("inner_pass")
	if inner {
		f.Update(NamedPass("x"))
	} else {
		f.Update(NamedFail("x", "down"))
	}
	at := verifClockLast
	st := f.Status()
	now := verifClockLast
	fresh := now-at <= int64(stale)
	vrt.Assert((st == StatusPass) == (fresh && inner), "freshness: fresh result is delivered, stale result fails")
	vrt.Reach("end")
}
