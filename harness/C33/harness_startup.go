package run

import (
	"context"
	"errors"
	"time"

	vrt "github.com/influxdata/influxdb/v2/internal/zzverifrt"
	"github.com/influxdata/influxdb/v2/kit/check"
	"go.uber.org/zap"
)

func verifSince(time.Time) time.Duration { return 0 }

// VerifC33_StartupReady: engine.Open finishes (Finish(nil) or Finish(err)) while a /ready request evaluates
// the startup gate, registered in a real check.Check next to an ordinary ReadyGate. Every schedule with up
// to PREEMPT pre-emptions at the atomic operations of cmd/influxd/run and kit/check is explored. The
// request never answers ready when the engine failed to open; it answers ready when a successful Finish
// completed before it began and the other gate is ready, and not ready when Finish began after it ended.
func VerifC33_StartupReady() {
	s := NewStartupProgressLogger("shards", zap.NewNop())
	n := vrt.Choose("shards", 0, 2)
	for i := 0; i < n; i++ {
		s.AddShard()
	}
	for i := 0; i < vrt.Choose("completed", 0, n); i++ {
		s.shardsCompleted.Add(1)
	}
	c := check.NewCheck()
	c.AddNamedReadyCheck(s.ReadyChecker())
	api := check.NewReadyGate("api")
	c.AddNamedReadyCheck(api)
	apiReady := vrt.Choose("api_ready", 0, 1) == 1
	if apiReady {
		api.Ready()
	}
	var err error
	if vrt.Choose("open_fails", 0, 1) == 1 {
		err = errors.New("boom")
	}
	clock := 0
	tick := func() int { clock++; return clock }
	var finStart, finEnd, reqStart, reqEnd int
	var resp check.Response
	vrt.Go(func() {
		finStart = tick()
		s.Finish(err)
		finEnd = tick()
	})
	vrt.Go(func() {
		reqStart = tick()
		resp = c.CheckReady(context.Background())
		reqEnd = tick()
	})
	vrt.Join()
	vrt.Assert(resp != nil && finEnd > 0, "both finished")
	ready := resp.Status() == check.StatusPass
	if err != nil {
		vrt.Assert(!ready, "ready is never answered when the engine failed to open")
	} else {
		if finEnd < reqStart {
			vrt.Assert(ready == apiReady, "after a successful startup ready depends on the other gates only")
		}
		if finStart > reqEnd {
			vrt.Assert(!ready, "not ready before the startup finished")
		}
	}
	if !apiReady {
		vrt.Assert(!ready, "not ready while another gate is not ready")
	}
	// afterwards the outcome is stable
	after := c.CheckReady(context.Background()).Status() == check.StatusPass
	vrt.Assert(after == (err == nil && apiReady), "after startup: ready exactly when it succeeded and every gate is ready")
	vrt.Reach("end")
}
