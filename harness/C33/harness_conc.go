package check

import (
	"context"

	vrt "github.com/influxdata/influxdb/v2/internal/zzverifrt"
)

// VerifC33_ConcurrentReady: a registrar (adds gate "tasks" to a Check that already has "engine" and "api"),
// a signaller (flips one chosen gate to ready or un-ready) and a requester (CheckReady) run concurrently;
// every schedule with up to PREEMPT pre-emptions at the mutex/atomic operations of kit/check is explored.
// With a logical clock over the harness events: a gate signalled (registered) before the request began is
// seen in its new state (is listed); one signalled (registered) after the request ended is seen in its old
// state (is not listed); the aggregate is pass exactly when every listed gate is listed as passing, and
// every listed gate appears once.
func VerifC33_ConcurrentReady() {
	c := NewCheck()
	gates := []*ReadyGate{NewReadyGate("engine"), NewReadyGate("api"), NewReadyGate("tasks")}
	var init [3]bool
	for i := 0; i < 3; i++ {
		init[i] = vrt.Choose(vrt.N("init", i), 0, 1) == 1
		if init[i] {
			gates[i].Ready()
		}
	}
	c.AddNamedReadyCheck(gates[0])
	c.AddNamedReadyCheck(gates[1])
	clock := 0
	tick := func() int { clock++; return clock }
	var regStart, regEnd, sigStart, sigEnd, reqStart, reqEnd int
	sg := vrt.Choose("signal_gate", 0, 2)
	sv := vrt.Choose("signal_ready", 0, 1) == 1
	var resp Response
	vrt.Go(func() {
		regStart = tick()
		c.AddNamedReadyCheck(gates[2])
		regEnd = tick()
	})
	vrt.Go(func() {
		sigStart = tick()
		if sv {
			gates[sg].Ready()
		} else {
			gates[sg].Unready()
		}
		sigEnd = tick()
	})
	vrt.Go(func() {
		reqStart = tick()
		resp = c.CheckReady(context.Background())
		reqEnd = tick()
	})
	vrt.Join()
	vrt.Assert(resp != nil && regEnd > 0 && sigEnd > 0 && reqEnd > 0, "all three finished")

	allPass := true
	for i := 0; i < 3; i++ {
		n := 0
		var st Status
		for _, ch := range resp.Checks() {
			if ch.Name() == gates[i].CheckName() {
				n++
				st = ch.Status()
			}
		}
		vrt.Assert(n <= 1, "a gate is listed at most once")
		if i < 2 {
			vrt.Assert(n == 1, "a gate registered before the request is listed")
		} else {
			if regEnd < reqStart {
				vrt.Assert(n == 1, "a gate registered before the request is listed")
			}
			if regStart > reqEnd {
				vrt.Assert(n == 0, "a gate registered after the request is not listed")
			}
		}
		if n == 0 {
			continue
		}
		seen := st == StatusPass
		allPass = allPass && seen
		switch {
		case i != sg:
			vrt.Assert(seen == init[i], "an unsignalled gate is reported in its own state")
		case sigEnd < reqStart:
			vrt.Assert(seen == sv, "a signal that completed before the request is reflected")
		case sigStart > reqEnd:
			vrt.Assert(seen == init[i], "a signal that began after the request is not reflected")
		default:
			vrt.Assert(seen == sv || seen == init[i], "an overlapping signal is seen either way")
		}
	}
	vrt.Assert((resp.Status() == StatusPass) == allPass, "ready: pass exactly when every listed gate passes")
	vrt.Reach("end")
}
