#!/usr/bin/env python3
import os
d=os.path.dirname(os.path.abspath(__file__))
src=open(os.path.join(d,'window.tmpl')).read()
for T,VT,SYM in (("Integer","int64",'vrt.Int64(vrt.N("v", i))'),("Unsigned","uint64",'vrt.Uint64(vrt.N("v", i))')):
    open(os.path.join(d,'harness_%s.go'%T.lower()),'w').write(src.replace('@T@',T).replace('@t@',T.lower()).replace('@VT@',VT).replace('@SYM@',SYM))
