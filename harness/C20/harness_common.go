package reads

import (
	"github.com/influxdata/flux/interval"
	"github.com/influxdata/flux/values"
	vrt "github.com/influxdata/influxdb/v2/internal/zzverifrt"
)

var verifEverys = []int64{10, 7, 3600000000000, 1}

// verifWindow: every = period from a short list, arbitrary offset in [0, every)
func verifWindow() (interval.Window, int64, int64) {
	every := verifEverys[vrt.Choose("every", 0, vrt.Bound("E", 1))]
	off := vrt.Int64("offset")
	vrt.Assume(off >= 0)
	vrt.Assume(off < every)
	w, err := interval.NewWindow(values.MakeDuration(every, 0, false), values.MakeDuration(every, 0, false), values.MakeDuration(off, 0, false))
	if err != nil {
		panic(err)
	}
	return w, every, off
}

// reference: stop of the window [start, start+every) containing t, start = floor((t-off)/every)*every + off
func verifWindowStop(t, every, off int64) int64 {
	x := t - off
	q := x / every
	q = vrt.Ite(vrt.And(x%every != 0, x < 0), q-1, q)
	return q*every + off + every
}
