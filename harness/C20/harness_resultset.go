package reads

import (
	"context"

	vrt "github.com/influxdata/influxdb/v2/internal/zzverifrt"
	"github.com/influxdata/influxdb/v2/models"
	"github.com/influxdata/influxdb/v2/storage/reads/datatypes"
	"github.com/influxdata/influxdb/v2/tsdb/cursors"
	"github.com/opentracing/opentracing-go"
)

func verifStartSpan(ctx context.Context, opts ...opentracing.StartSpanOption) (opentracing.Span, context.Context) {
	return opentracing.NoopTracer{}.StartSpan(""), ctx
}

// VerifC20_ResultSetCount: a window count requested through NewWindowAggregateResultSet, with the window
// given either as nanosecond fields (WindowEvery/Offset) or as a Window message (Every/Offset durations
// with a sign flag), for a positive or negative offset of symbolic size: the counts and window stops equal
// grouping the raw points by floor((t - offset)/every).
func VerifC20_ResultSetCount() {
	K := vrt.Choose("points", 1, vrt.Bound("K", 3))
	every := verifEverys[vrt.Choose("every", 0, vrt.Bound("E", 1))]
	mag := vrt.Int64("offset_size")
	vrt.Assume(mag >= 0)
	vrt.Assume(mag < every)
	neg := vrt.Choose("offset_negative", 0, 1) == 1
	off := mag
	if neg {
		off = -mag
	}
	ts, vs := make([]int64, K), make([]int64, K)
	for i := 0; i < K; i++ {
		ts[i], vs[i] = vrt.Int64(vrt.N("t", i)), vrt.Int64(vrt.N("v", i))
		vrt.Assume(ts[i] >= 0)
		vrt.Assume(ts[i] < 1000000)
		if i > 0 {
			vrt.Assume(ts[i-1] < ts[i])
		}
	}
	shard := &verifShard{cur: &verifShardCursor{blocks: [][2][]int64{{ts, vs}}}}
	row := &SeriesRow{Name: []byte("m"), Tags: models.Tags{{Key: []byte("host"), Value: []byte("a")}}, Field: "v",
		Query: cursors.CursorIterators{shard}}
	req := &datatypes.ReadWindowAggregateRequest{
		Range:     &datatypes.TimestampRange{Start: 0, End: 1000000},
		Aggregate: []*datatypes.Aggregate{{Type: datatypes.Aggregate_AggregateTypeCount}},
	}
	if vrt.Choose("window_message", 0, 1) == 1 {
		req.Window = &datatypes.Window{Every: &datatypes.Duration{Nsecs: every}, Offset: &datatypes.Duration{Nsecs: mag, Negative: neg}}
	} else {
		req.WindowEvery, req.Offset = every, off
	}
	rs, err := NewWindowAggregateResultSet(context.Background(), req, &verifRows{rows: []*SeriesRow{row}})
	vrt.Assert(err == nil && rs != nil, "result set created")
	vrt.Assert(rs.Next(), "the series is returned")
	cur, ok := rs.Cursor().(cursors.IntegerArrayCursor)
	vrt.Assert(ok, "count yields an integer cursor")
	if !ok {
		return
	}
	var gotT, gotV []int64
	for i := 0; i < K+1; i++ {
		a := cur.Next()
		if a.Len() == 0 {
			break
		}
		gotT, gotV = append(gotT, a.Timestamps...), append(gotV, a.Values...)
	}
	stops := make([]int64, K)
	for i := range ts {
		stops[i] = verifWindowStop(ts[i], every, off)
	}
	type group struct{ lo, hi int }
	var groups []group
	lo := 0
	for i := 1; i <= K; i++ {
		if i == K || stops[i] != stops[i-1] {
			groups = append(groups, group{lo, i})
			lo = i
		}
	}
	vrt.Assert(len(gotT) == len(groups), "result set: one count per non-empty window")
	if len(gotT) == len(groups) {
		for g, gr := range groups {
			stop := stops[gr.lo] // window bounds are not clipped to the request range at this layer
			vrt.Assert(vrt.And(gotT[g] == stop, gotV[g] == int64(gr.hi-gr.lo)), "result set: count of the window, stamped with the window stop")
		}
	}
	vrt.Reach("end")
}
