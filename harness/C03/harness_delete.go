package tsm1

import (
	"context"
	"math"

	vrt "github.com/influxdata/influxdb/v2/internal/zzverifrt"
)

// fake-file side of a range delete: the tombstone batch of the TSM reader, reduced to recording the
// range for the (single) key of the file. How TSMReader persists and applies tombstones is C02/C08.
var verifKey = []byte("cpu,host=a#!~#value")

func (f *verifTSM) OverlapsTimeRange(min, max int64) bool {
	lo, hi := f.TimeRange()
	return lo <= max && hi >= min
}
func (f *verifTSM) KeyRange() ([]byte, []byte) { return verifKey, verifKey }
func (f *verifTSM) KeyCount() int              { return 1 }
func (f *verifTSM) Seek(key []byte) int {
	if string(key) <= string(verifKey) {
		return 0
	}
	return 1
}
func (f *verifTSM) KeyAt(idx int) ([]byte, byte) { return verifKey, BlockInteger }
func (f *verifTSM) BatchDelete() BatchDeleter    { return &verifBatch{f: f} }

type verifBatch struct {
	f       *verifTSM
	pending []TimeRange
}

func (b *verifBatch) DeleteRange(keys [][]byte, min, max int64) error {
	for _, k := range keys {
		if string(k) == string(verifKey) {
			b.pending = append(b.pending, TimeRange{Min: min, Max: max})
		}
	}
	return nil
}
func (b *verifBatch) Commit() error   { b.f.tombs = append(b.f.tombs, b.pending...); return nil }
func (b *verifBatch) Rollback() error { b.pending = nil; return nil }

// verifCommitSnapshot stands for Compactor.WriteSnapshot + FileStore.Replace: every value held by the
// snapshot cache becomes one block of a new (newest) TSM file. The real encoders/writer are C04/C07/C08.
func verifCommitSnapshot(e *Engine, snapshot *Cache, name string) {
	snapshot.Deduplicate()
	vals := snapshot.values(verifKey)
	if len(vals) > 0 {
		f := &verifTSM{name: name}
		var blk [2][]int64
		for _, v := range vals {
			blk[0] = append(blk[0], v.UnixNano())
			blk[1] = append(blk[1], v.Value().(int64))
		}
		f.blocks = append(f.blocks, blk)
		e.FileStore.files = append(e.FileStore.files, f)
	}
	e.Cache.ClearSnapshot(true)
}

// verifReadEverything: what a reader can see for the key: cache (hot + snapshot) and every TSM file
// through a real KeyCursor.
func verifReadEverything(e *Engine, max int) (ts []int64) {
	for _, v := range e.Cache.Values(verifKey) {
		ts = append(ts, v.UnixNano())
	}
	c := newKeyCursor(context.Background(), e.FileStore, verifKey, -4611686018427387904, true)
	var buf []IntegerValue
	for i := 0; i < max; i++ {
		vals, err := c.ReadIntegerBlock(&buf)
		vrt.Assert(err == nil, "read: no error")
		if len(vals) == 0 {
			break
		}
		for _, v := range vals {
			ts = append(ts, v.UnixNano())
		}
		c.Next()
	}
	c.Close()
	return ts
}

// VerifC03_DeleteVsSnapshot: one series with points in an older TSM file and in the cache; a range
// delete (the real Engine.deleteSeriesRange: tombstones on files, Cache.DeleteRange) is placed at an
// arbitrary position of the snapshot protocol of Engine.doWriteSnapshot (before Cache.Snapshot,
// between Cache.Snapshot and the commit, after a failed snapshot that is later retried, or after the
// commit). Afterwards no point inside the deleted range is readable and every point outside is.
func VerifC03_DeleteVsSnapshot() {
	P0, P := vrt.Bound("P0", 1), vrt.Bound("P", 2)
	e := &Engine{Cache: verifNewCache(0), FileStore: &FileStore{}}
	var all []int64
	bound := func(t int64) {
		vrt.Assume(t > -4611686018427387904)
		vrt.Assume(t < 4611686018427387904)
	}
	// older file
	old := &verifTSM{name: "old"}
	var blk [2][]int64
	for i := 0; i < P0; i++ {
		t := vrt.Int64(vrt.N("ft", i))
		bound(t)
		if i > 0 {
			vrt.Assume(blk[0][i-1] < t)
		}
		blk[0], blk[1] = append(blk[0], t), append(blk[1], int64(i))
		all = append(all, t)
	}
	old.blocks = append(old.blocks, blk)
	e.FileStore.files = append(e.FileStore.files, old)
	// cache write
	var vals []Value
	for i := 0; i < P; i++ {
		t := vrt.Int64(vrt.N("ct", i))
		bound(t)
		vals = append(vals, NewIntegerValue(t, int64(100+i)))
		all = append(all, t)
	}
	vrt.Assert(e.Cache.WriteMulti(map[string][]Value{string(verifKey): vals}) == nil, "write accepted")

	min, max := vrt.Int64("dmin"), vrt.Int64("dmax")
	if vrt.Choose("delete_all_time", 0, 1) == 1 {
		min, max = math.MinInt64, math.MaxInt64
	}
	del := func() {
		err := e.deleteSeriesRange(context.Background(), [][]byte{[]byte("cpu,host=a")}, min, max)
		vrt.Assert(err == nil, "delete returns success")
	}
	// position of the delete in the snapshot protocol
	when := vrt.Choose("delete_position", 0, 3)
	if when == 0 {
		del()
	}
	snapshot, err := e.Cache.Snapshot()
	vrt.Assert(err == nil, "snapshot taken")
	if when == 1 {
		vrt.Reach("delete between Snapshot and commit")
		del()
	}
	if vrt.Choose("first_snapshot_fails", 0, 1) == 1 {
		e.Cache.ClearSnapshot(false) // writeSnapshotAndCommit's error path
		if when == 2 {
			vrt.Reach("delete after failed snapshot")
			del()
		}
		snapshot, err = e.Cache.Snapshot() // retried by the next compactCache tick
		vrt.Assert(err == nil, "snapshot retried")
	} else if when == 2 {
		return
	}
	verifCommitSnapshot(e, snapshot, "new")
	if when == 3 {
		del()
	}
	got := verifReadEverything(e, P0+P+2)
	where := []string{"delete before Cache.Snapshot", "delete between Cache.Snapshot and commit", "delete after failed snapshot, before its retry", "delete after commit"}[when]
	for _, t := range got {
		vrt.Assert(vrt.Not(vrt.And(min <= t, t <= max)), where+": no point inside the deleted range is readable after the delete returned")
	}
	for i := range all {
		i := i
		vrt.Assert(vrt.Implies(vrt.Not(vrt.And(min <= all[i], all[i] <= max)),
			vrt.Any(len(got), func(k int) bool { return got[k] == all[i] })), where+": points outside the deleted range are unaffected")
	}
	vrt.Reach("end")
}
