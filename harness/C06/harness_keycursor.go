package tsm1

import (
	"context"

	vrt "github.com/influxdata/influxdb/v2/internal/zzverifrt"
	"github.com/influxdata/influxdb/v2/tsdb"
)

// VerifC06_KeyCursorArray: F files x B blocks x P points of one key with arbitrary timestamps/values
// (and optional per-file tombstones), arbitrary seek time and direction: reading the KeyCursor block by
// block until it is exhausted returns exactly the live points on the seek side, each once, in order,
// with the value from the newest file holding that timestamp.
func VerifC06_KeyCursorArray() {
	F, B, P := vrt.Bound("F", 2), vrt.Bound("B", 1), vrt.Bound("P", 2)
	files := verifFiles(F, B, P, vrt.Bound("TOMBS", 0))
	fs := &FileStore{}
	for _, f := range files {
		fs.files = append(fs.files, f)
	}
	t := vrt.Int64("seek")
	vrt.Assume(t > -4611686018427387904)
	vrt.Assume(t < 4611686018427387904)
	asc := vrt.Choose("ascending", 0, 1) == 1
	c := newKeyCursor(context.Background(), fs, []byte("k"), t, asc)
	var ts, vs []int64
	buf := &tsdb.IntegerArray{}
	for i := 0; i < F*B*P+2; i++ {
		a, err := c.ReadIntegerArrayBlock(buf)
		vrt.Assert(err == nil, "read: no error")
		if a.Len() == 0 {
			break
		}
		if asc {
			ts = append(ts, a.Timestamps...)
			vs = append(vs, a.Values...)
		} else {
			// a block is ascending inside; a descending reader consumes it back to front
			for k := a.Len() - 1; k >= 0; k-- {
				ts = append(ts, a.Timestamps[k])
				vs = append(vs, a.Values[k])
			}
		}
		c.Next()
	}
	c.Close()
	ps := verifAllPoints(files)
	inRange := func(x int64) bool { return x >= t }
	if !asc {
		inRange = func(x int64) bool { return x <= t }
	}
	verifCheckOutput(ps, inRange, ts, vs, asc, "keycursor")
	for _, f := range files {
		vrt.Assert(f.refs == 0, "keycursor: file references released")
	}
	vrt.Reach("end")
}

// VerifC06_ChainedOverlap: a layout where blocks of one file do not overlap each other but a block of
// another file spans several of them: older file with three single-point blocks z < a < c, newer file
// with one block [b0, b1] anywhere; arbitrary seek time and direction. Same oracle as above.
func VerifC06_ChainedOverlap() {
	bound := func(x int64) {
		vrt.Assume(x > -4611686018427387904)
		vrt.Assume(x < 4611686018427387904)
	}
	z, a, c := vrt.Int64("z"), vrt.Int64("a"), vrt.Int64("c")
	b0, b1 := vrt.Int64("b0"), vrt.Int64("b1")
	for _, x := range []int64{z, a, c, b0, b1} {
		bound(x)
	}
	vrt.Assume(z < a)
	vrt.Assume(a < c)
	vrt.Assume(b0 < b1)
	older := &verifTSM{name: "000000001-000000001.tsm", blocks: [][2][]int64{{{z}, {1}}, {{a}, {2}}, {{c}, {3}}}}
	newer := &verifTSM{name: "000000002-000000001.tsm", blocks: [][2][]int64{{{b0, b1}, {10, 11}}}}
	if vrt.Choose("spanning_block_in_older_file", 0, 1) == 1 {
		older.name, newer.name = newer.name, older.name
	}
	files := []*verifTSM{older, newer}
	if older.name > newer.name {
		files = []*verifTSM{newer, older}
	}
	fs := &FileStore{}
	for _, f := range files {
		fs.files = append(fs.files, f)
	}
	t := vrt.Int64("seek")
	bound(t)
	asc := vrt.Choose("ascending", 0, 1) == 1
	cur := newKeyCursor(context.Background(), fs, []byte("k"), t, asc)
	var ts, vs []int64
	buf := &tsdb.IntegerArray{}
	for i := 0; i < 8; i++ {
		arr, err := cur.ReadIntegerArrayBlock(buf)
		vrt.Assert(err == nil, "read: no error")
		if arr.Len() == 0 {
			break
		}
		if asc {
			ts = append(ts, arr.Timestamps...)
			vs = append(vs, arr.Values...)
		} else {
			for k := arr.Len() - 1; k >= 0; k-- {
				ts = append(ts, arr.Timestamps[k])
				vs = append(vs, arr.Values[k])
			}
		}
		cur.Next()
	}
	cur.Close()
	ps := verifAllPoints(files)
	inRange := func(x int64) bool { return x >= t }
	if !asc {
		inRange = func(x int64) bool { return x <= t }
	}
	verifCheckOutput(ps, inRange, ts, vs, asc, "keycursor (chained overlap)")
	vrt.Reach("end")
}
