package tsm1

import (
	vrt "github.com/influxdata/influxdb/v2/internal/zzverifrt"
	"github.com/influxdata/influxdb/v2/tsdb"
)

// verifTSM is an in-memory TSMFile for one series key: blocks of (timestamp, integer value) pairs,
// each block strictly ascending, blocks ascending and non-overlapping (the TSM writer's invariant),
// plus the file's tombstone ranges for the key.
type verifTSM struct {
	TSMFile
	name   string
	blocks [][2][]int64 // per block: timestamps, values
	tombs  []TimeRange
	refs   int
}

func (f *verifTSM) Path() string { return f.name }
func (f *verifTSM) Ref()         { f.refs++ }
func (f *verifTSM) Unref()       { f.refs-- }
func (f *verifTSM) HasTombstones() bool { return len(f.tombs) > 0 }
func (f *verifTSM) TombstoneRange(key []byte) []TimeRange { return f.tombs }

func (f *verifTSM) TimeRange() (int64, int64) {
	first := f.blocks[0][0]
	last := f.blocks[len(f.blocks)-1][0]
	return first[0], last[len(last)-1]
}

func (f *verifTSM) entries() []IndexEntry {
	es := make([]IndexEntry, len(f.blocks))
	for i, b := range f.blocks {
		es[i] = IndexEntry{MinTime: b[0][0], MaxTime: b[0][len(b[0])-1], Offset: int64(i), Size: 16}
	}
	return es
}

func (f *verifTSM) ReadEntries(key []byte, entries *[]IndexEntry) []IndexEntry {
	es := f.entries()
	if entries != nil {
		*entries = es
	}
	return es
}

func (f *verifTSM) Entries(key []byte) []IndexEntry { return f.entries() }

func (f *verifTSM) ReadIntegerArrayBlockAt(entry *IndexEntry, values *tsdb.IntegerArray) error {
	b := f.blocks[entry.Offset]
	values.Timestamps = append(values.Timestamps[:0], b[0]...)
	values.Values = append(values.Values[:0], b[1]...)
	return nil
}

func (f *verifTSM) ReadIntegerBlockAt(entry *IndexEntry, values *[]IntegerValue) ([]IntegerValue, error) {
	b := f.blocks[entry.Offset]
	out := (*values)[:0]
	for i := range b[0] {
		out = append(out, IntegerValue{unixnano: b[0][i], value: b[1][i]})
	}
	*values = out
	return out, nil
}

// verifFiles builds F files (oldest first) with B blocks of P points each; all timestamps and values
// symbolic within the documented time domain; optionally one tombstone range per file.
func verifFiles(F, B, P int, tombMode int) []*verifTSM {
	files := make([]*verifTSM, F)
	for fi := 0; fi < F; fi++ {
		f := &verifTSM{name: vrt.N("file", fi)}
		var prev int64
		first := true
		for bi := 0; bi < B; bi++ {
			ts := make([]int64, P)
			vs := make([]int64, P)
			for pi := 0; pi < P; pi++ {
				ts[pi] = vrt.Int64(vrt.N("t", fi, bi, pi))
				vs[pi] = vrt.Int64(vrt.N("v", fi, bi, pi))
				vrt.Assume(ts[pi] > -4611686018427387904)
				vrt.Assume(ts[pi] < 4611686018427387904)
				if !first {
					vrt.Assume(prev < ts[pi])
				}
				prev, first = ts[pi], false
			}
			f.blocks = append(f.blocks, [2][]int64{ts, vs})
		}
		// tombMode: 0 none, 1 any file may carry a tombstone range, 2 only the oldest file may,
		// 3 the newest file carries one
		if tombMode == 3 && fi == F-1 || (tombMode == 1 || (tombMode == 2 && fi == 0)) && vrt.Choose(vrt.N("tomb", fi), 0, 1) == 1 {
			lo, hi := vrt.Int64(vrt.N("tomb_min", fi)), vrt.Int64(vrt.N("tomb_max", fi))
			vrt.Assume(lo <= hi)
			f.tombs = []TimeRange{{Min: lo, Max: hi}}
		}
		files[fi] = f
	}
	return files
}

// reference semantics: a point of file fi is live if its own file's tombstones do not cover it; the
// value seen for a timestamp is that of the newest file holding a live point with that timestamp.
type verifPoint struct {
	ts, v int64
	file  int
	live  bool
}

func verifAllPoints(files []*verifTSM) []verifPoint {
	var ps []verifPoint
	for fi, f := range files {
		for _, b := range f.blocks {
			for i := range b[0] {
				live := true
				for _, tr := range f.tombs {
					live = vrt.And(live, vrt.Not(vrt.And(tr.Min <= b[0][i], b[0][i] <= tr.Max)))
				}
				ps = append(ps, verifPoint{ts: b[0][i], v: b[1][i], file: fi, live: live})
			}
		}
	}
	return ps
}

// winner(i): live, selected by the range predicate, and no live point with the same timestamp in a newer file
func verifWinner(ps []verifPoint, i int, inRange func(int64) bool) bool {
	w := vrt.And(ps[i].live, inRange(ps[i].ts))
	for j := range ps {
		if ps[j].file > ps[i].file {
			w = vrt.And(w, vrt.Not(vrt.And(ps[j].live, ps[j].ts == ps[i].ts)))
		}
	}
	return w
}

// verifCheckOutput: out (ts, vs) is exactly the winners, each once, in the given order.
func verifCheckOutput(ps []verifPoint, inRange func(int64) bool, ts, vs []int64, ascending bool, label string) {
	for k := 1; k < len(ts); k++ {
		if ascending {
			vrt.Assert(ts[k-1] < ts[k], label+": strictly ascending timestamps")
		} else {
			vrt.Assert(ts[k-1] > ts[k], label+": strictly descending timestamps")
		}
	}
	for k := range ts {
		k := k
		vrt.Assert(vrt.Any(len(ps), func(i int) bool {
			return vrt.And(ps[i].ts == ts[k], ps[i].v == vs[k], verifWinner(ps, i, inRange))
		}), label+": every returned point is a live point with the newest file's value")
	}
	for i := range ps {
		i := i
		vrt.Assert(vrt.Implies(verifWinner(ps, i, inRange), vrt.Any(len(ts), func(k int) bool { return ts[k] == ps[i].ts })),
			label+": every live point in range is returned")
	}
}
