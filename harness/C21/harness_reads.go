package reads

import (
	"context"

	vrt "github.com/influxdata/influxdb/v2/internal/zzverifrt"
	"github.com/influxdata/influxdb/v2/models"
	"github.com/influxdata/influxdb/v2/storage/reads/datatypes"
	"github.com/influxdata/influxdb/v2/tsdb/cursors"
	"github.com/influxdata/influxql"
)

// ---- what a shard hands to the read service: a cursor over blocks of (time, value) ----------------
type verifShardCursor struct {
	blocks [][2][]int64
	closed bool
}

func (c *verifShardCursor) Close()                     { c.closed = true }
func (c *verifShardCursor) Err() error                 { return nil }
func (c *verifShardCursor) Stats() cursors.CursorStats { return cursors.CursorStats{} }
func (c *verifShardCursor) Next() *cursors.IntegerArray {
	if len(c.blocks) == 0 {
		return &cursors.IntegerArray{}
	}
	b := c.blocks[0]
	c.blocks = c.blocks[1:]
	return &cursors.IntegerArray{Timestamps: b[0], Values: b[1]}
}

// a shard's cursor iterator: every Next opens a new cursor over the series' blocks in that shard
type verifShard struct {
	cur    *verifShardCursor // nil: the series has no data in this shard
	opened []*verifShardCursor
}

func (s *verifShard) Stats() cursors.CursorStats { return cursors.CursorStats{} }
func (s *verifShard) Next(ctx context.Context, r *cursors.CursorRequest) (cursors.Cursor, error) {
	if s.cur == nil {
		return nil, nil
	}
	c := &verifShardCursor{blocks: append([][2][]int64(nil), s.cur.blocks...)}
	s.opened = append(s.opened, c)
	return c, nil
}

type verifPt struct{ t, v int64 }

// verifSeriesData: S shards in time order (the store sorts shards by time; shard group ranges are
// disjoint, C18), each either without data for the series or with B blocks of up to P points, all
// timestamps ascending across the whole series.
func verifSeriesData(name string, S, B, P int) (cursors.CursorIterators, []verifPt, []*verifShardCursor) {
	var its cursors.CursorIterators
	var pts []verifPt
	var curs []*verifShardCursor
	have := false
	var last int64
	for s := 0; s < S; s++ {
		switch vrt.Choose(vrt.N(name+"_shard_empty", s), 0, 2) {
		case 1: // the shard does not know the series: no cursor
			its = append(its, &verifShard{})
			continue
		case 2: // the shard knows the field but holds no point of the series in range: an empty cursor
			its = append(its, &verifShard{cur: &verifShardCursor{}})
			continue
		}
		c := &verifShardCursor{}
		for b := 0; b < B; b++ {
			n := vrt.Choose(vrt.N(name+"_points", s, b), 1, P)
			var blk [2][]int64
			for i := 0; i < n; i++ {
				t, v := vrt.Int64(vrt.N(name+"_t", s, b, i)), vrt.Int64(vrt.N(name+"_v", s, b, i))
				if have {
					vrt.Assume(last < t)
				}
				have, last = true, t
				blk[0], blk[1] = append(blk[0], t), append(blk[1], v)
				pts = append(pts, verifPt{t, v})
			}
			c.blocks = append(c.blocks, blk)
		}
		curs = append(curs, c)
		its = append(its, &verifShard{cur: c})
	}
	return its, pts, curs
}

func verifDrain(cur cursors.Cursor, max int) []verifPt {
	var out []verifPt
	ic, ok := cur.(cursors.IntegerArrayCursor)
	vrt.Assert(ok, "an integer series yields an integer cursor")
	for i := 0; i < max; i++ {
		a := ic.Next()
		if a.Len() == 0 {
			break
		}
		for k := range a.Timestamps {
			out = append(out, verifPt{a.Timestamps[k], a.Values[k]})
		}
	}
	return out
}

// VerifC21_FilterRead: one series whose data lies in S shards, read through NewFilteredResultSet with an
// optional value predicate ($ > threshold): the result set yields the series once and its cursor delivers
// exactly the stored points that satisfy the predicate, each once, in time order, across shard
// boundaries; every shard cursor is closed.
func VerifC21_FilterRead() {
	S, B, P := vrt.Bound("S", 2), vrt.Bound("B", 1), vrt.Bound("P", 2)
	its, pts, curs := verifSeriesData("s", S, B, P)
	row := SeriesRow{Name: []byte("m"), Tags: models.Tags{{Key: []byte("host"), Value: []byte("a")}}, Field: "v", Query: its}
	pred := vrt.Choose("value_predicate", 0, 1) == 1
	th := vrt.Int64("threshold")
	if pred {
		row.ValueCond = &influxql.BinaryExpr{Op: influxql.GT, LHS: &influxql.VarRef{Val: "$"}, RHS: &influxql.IntegerLiteral{Val: th}}
	}
	rs := NewFilteredResultSet(context.Background(), 0, 100, &verifRows{rows: []*SeriesRow{&row}})
	vrt.Assert(rs.Next(), "the series is returned")
	cur := rs.Cursor()
	var got []verifPt
	if cur != nil {
		got = verifDrain(cur, len(pts)+2)
		cur.Close()
	}
	var want []verifPt
	for _, p := range pts {
		if !pred || p.v > th {
			want = append(want, p)
		}
	}
	vrt.Assert(len(got) == len(want), "as many points as stored points satisfy the predicate")
	for i := range want {
		if i < len(got) {
			vrt.Assert(got[i] == want[i], "exactly the stored points, in time order, none dropped or duplicated")
		}
	}
	vrt.Assert(!rs.Next(), "the series is returned once")
	_ = curs
	for _, it := range its {
		for _, c := range it.(*verifShard).opened {
			vrt.Assert(c.closed, "every shard cursor that was opened is closed")
		}
	}
	vrt.Reach("end")
}

type verifRows struct {
	rows []*SeriesRow
	i    int
}

func (r *verifRows) Close()     {}
func (r *verifRows) Err() error { return nil }
func (r *verifRows) Next() *SeriesRow {
	if r.i >= len(r.rows) {
		return nil
	}
	r.i++
	cp := *r.rows[r.i-1] // the real cursor reuses its row; result sets copy what they keep
	return &cp
}

// VerifC21_GroupRead: N series with one symbolic tag byte each for host and (optionally absent)
// region, one point each (or none: such a series must not appear), read through NewGroupResultSet
// grouped by [host], [region] or [region, host]: every series with data is in exactly one group, two
// series share a group iff their group key values agree (absent only with absent), groups come in
// ascending order of their key values with absent sorting last, and each series' points are intact.
func VerifC21_GroupRead() {
	N := vrt.Bound("N", 3)
	// "_measurement" and "_field" are synthetic tags the series cursor adds to Tags (not to SeriesTags)
	keySets := [][]string{{"host"}, {"region"}, {"region", "host"}, {"_measurement"}, {"_measurement", "host"}}
	keys := keySets[vrt.Choose("group_keys", 0, len(keySets)-1)]
	type ser struct {
		host, region []byte // region nil = tag absent
		meas         []byte
		hasData      bool
		pt           verifPt
		row          *SeriesRow
	}
	var all []ser
	var rows []*SeriesRow
	for i := 0; i < N; i++ {
		s := ser{host: []byte{vrt.Byte(vrt.N("host", i))}, meas: []byte{vrt.Byte(vrt.N("measurement", i))}}
		vrt.Assume(s.host[0] >= 'a' && s.host[0] <= 'z')
		vrt.Assume(s.meas[0] >= 'a' && s.meas[0] <= 'z')
		tags := models.Tags{{Key: []byte("host"), Value: s.host}}
		if vrt.Choose(vrt.N("has_region", i), 0, 1) == 1 {
			s.region = []byte{vrt.Byte(vrt.N("region", i))}
			vrt.Assume(s.region[0] >= 'a' && s.region[0] <= 'z')
			tags = append(tags, models.Tag{Key: []byte("region"), Value: s.region})
		}
		for _, o := range all { // distinct series
			same := string(o.host) == string(s.host) && string(o.meas) == string(s.meas)
			if (o.region == nil) != (s.region == nil) {
				same = false
			} else if o.region != nil {
				same = same && string(o.region) == string(s.region)
			}
			vrt.Assume(!same)
		}
		s.hasData = vrt.Choose(vrt.N("has_data", i), 0, 1) == 1
		var its cursors.CursorIterators
		if s.hasData {
			s.pt = verifPt{vrt.Int64(vrt.N("t", i)), vrt.Int64(vrt.N("v", i))}
			its = cursors.CursorIterators{&verifShard{cur: &verifShardCursor{blocks: [][2][]int64{{{s.pt.t}, {s.pt.v}}}}}}
		} else {
			its = cursors.CursorIterators{&verifShard{}}
		}
		// Tags = "_field", "_measurement" and the series tags, sorted by key ('_' sorts before a..z)
		full := append(models.Tags{{Key: []byte("_field"), Value: []byte("v")}, {Key: []byte("_measurement"), Value: s.meas}}, tags...)
		s.row = &SeriesRow{Name: s.meas, SeriesTags: tags, Tags: full, Field: "v", Query: its}
		rows = append(rows, s.row)
		all = append(all, s)
	}
	// a fresh cursor iterator per pass: the group result set scans the series twice (sort, then read)
	mk := func() (SeriesCursor, error) {
		fresh := make([]*SeriesRow, len(rows))
		for i, r := range rows {
			cp := *r
			if all[i].hasData {
				cp.Query = cursors.CursorIterators{&verifShard{cur: &verifShardCursor{blocks: [][2][]int64{{{all[i].pt.t}, {all[i].pt.v}}}}}}
			}
			fresh[i] = &cp
		}
		return &verifRows{rows: fresh}, nil
	}
	req := &datatypes.ReadGroupRequest{Group: datatypes.ReadGroupRequest_GroupBy, GroupKeys: keys,
		Range: &datatypes.TimestampRange{Start: 0, End: 100}}
	grs := NewGroupResultSet(context.Background(), req, mk)
	withData := 0
	for _, s := range all {
		if s.hasData {
			withData++
		}
	}
	if withData == 0 {
		vrt.Assert(grs == nil, "no group result set when no series has data")
		vrt.Reach("end")
		return
	}
	vrt.Assert(grs != nil, "a group result set when some series has data")
	if grs == nil {
		return
	}
	val := func(s *ser, k string) []byte {
		switch k {
		case "host":
			return s.host
		case "_measurement":
			return s.meas
		}
		return s.region
	}
	seen := make([]int, N) // group number (1-based) each series was delivered in
	var prevKey [][]byte
	for g := 1; g <= N+1; g++ {
		gc := grs.Next()
		if gc == nil {
			break
		}
		pk := append([][]byte(nil), gc.PartitionKeyVals()...)
		vrt.Assert(len(pk) == len(keys), "a group reports one value per group key")
		members := 0
		for gc.Next() {
			tags := gc.Tags()
			idx := -1
			for i := range all {
				if string(tags.Get([]byte("host"))) == string(all[i].host) && string(tags.Get([]byte("_measurement"))) == string(all[i].meas) && string(tags.Get([]byte("region"))) == string(all[i].region) &&
					(tags.Get([]byte("region")) == nil) == (all[i].region == nil) {
					idx = i
				}
			}
			vrt.Assert(idx >= 0, "a group member is one of the stored series")
			if idx < 0 {
				continue
			}
			vrt.Assert(all[idx].hasData, "a series without data in range is not returned")
			vrt.Assert(seen[idx] == 0, "a series is in exactly one group, once")
			seen[idx] = g
			for ki, k := range keys {
				vrt.Assert(string(pk[ki]) == string(val(&all[idx], k)), "a member's tag values are the group's key values")
			}
			cur := gc.Cursor()
			if cur != nil {
				got := verifDrain(cur, 3)
				vrt.Assert(len(got) == 1 && got[0] == all[idx].pt, "a member's points are the stored points")
				cur.Close()
			}
			members++
		}
		vrt.Assert(members > 0, "no empty group")
		if prevKey != nil {
			// ascending by key tuple; an absent value sorts after every present value
			less, decided := false, false
			for ki := range keys {
				a, b := prevKey[ki], pk[ki]
				if decided {
					break
				}
				switch {
				case len(a) == 0 && len(b) == 0:
				case len(a) == 0:
					less, decided = false, true
				case len(b) == 0:
					less, decided = true, true
				case a[0] < b[0]:
					less, decided = true, true
				case a[0] > b[0]:
					less, decided = false, true
				}
			}
			vrt.Assert(decided && less, "groups are delivered in strictly ascending order of their key values (absent last)")
		}
		prevKey = pk
	}
	for i := range all {
		vrt.Assert((seen[i] != 0) == all[i].hasData, "every series with data in range is delivered")
	}
	vrt.Reach("end")
}
