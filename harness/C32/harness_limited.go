package io

import (
	"io"

	vrt "github.com/influxdata/influxdb/v2/internal/zzverifrt"
)

// verifBody is an io.ReadCloser over a symbolic body that hands out its data in arbitrary chunk sizes
// (any size between 1 and what fits), optionally signalling EOF together with the last bytes, as the
// io.Reader contract allows.
type verifBody struct {
	data       []byte
	pos        int
	reads      int
	eofEarly   bool
	closeCalls int
}

func (b *verifBody) Read(p []byte) (int, error) {
	if b.pos >= len(b.data) {
		return 0, io.EOF
	}
	if len(p) == 0 {
		return 0, nil
	}
	max := len(b.data) - b.pos
	if len(p) < max {
		max = len(p)
	}
	b.reads++
	k := vrt.Choose(vrt.N("chunk", b.reads), 1, max)
	copy(p, b.data[b.pos:b.pos+k])
	b.pos += k
	if b.eofEarly && b.pos == len(b.data) {
		return k, io.EOF
	}
	return k, nil
}

func (b *verifBody) Close() error { b.closeCalls++; return nil }

// VerifC32_LimitedReadCloser: for every body length L, limit N, chunking of the underlying reader and
// consumer buffer size, reading to EOF delivers exactly the first min(L,N) bytes and Close reports
// ErrReadLimitExceeded exactly when the body is larger than the limit.
func VerifC32_LimitedReadCloser() {
	LMAX := vrt.Bound("LMAX", 3)
	L := vrt.Choose("L", 0, LMAX)
	N := vrt.Choose("N", 1, LMAX)
	body := &verifBody{data: vrt.Bytes("body", L), eofEarly: vrt.Choose("eof_with_data", 0, 1) == 1}
	rc := NewLimitedReadCloser(body, int64(N))
	bufSize := vrt.Choose("buf", 1, 2)
	var got []byte
	for i := 0; i < 4*LMAX+4; i++ {
		buf := make([]byte, bufSize)
		n, err := rc.Read(buf)
		got = append(got, buf[:n]...)
		if err != nil {
			vrt.Assert(err == io.EOF, "read: only EOF ends the stream")
			break
		}
	}
	want := L
	if N < L {
		want = N
	}
	vrt.Assert(len(got) == want, "read: delivers min(body, limit) bytes")
	if len(got) == want {
		vrt.Assert(vrt.All(want, func(i int) bool { return got[i] == body.data[i] }), "read: delivers the body's leading bytes unchanged")
	}
	err := rc.Close()
	if L > N {
		vrt.Assert(err == ErrReadLimitExceeded, "close: a body larger than the limit is reported")
		vrt.Reach("over")
	} else {
		vrt.Assert(err == nil, "close: a body at or under the limit is accepted")
		if L == N {
			vrt.Reach("exact")
		}
	}
	vrt.Assert(rc.Close() == err, "close: idempotent")
	vrt.Assert(body.closeCalls == 1, "close: underlying reader closed once")
	vrt.Reach("end")
}
