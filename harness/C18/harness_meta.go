package meta

import (
	"time"

	vrt "github.com/influxdata/influxdb/v2/internal/zzverifrt"
	"github.com/influxdata/influxdb/v2/models"
)

var verifDurations = []time.Duration{time.Hour, 24 * time.Hour, 7 * 24 * time.Hour, time.Second, time.Minute}

func verifTime(name string) (time.Time, int64) {
	x := vrt.Int64(name)
	vrt.Assume(x >= models.MinNanoTime)
	vrt.Assume(x <= models.MaxNanoTime)
	return time.Unix(0, x).UTC(), x
}

// pre-state: n live shard groups with arbitrary bounds satisfying the representation invariant
// (start < end, ascending, pairwise disjoint), each wholly inside the representable range.
func verifGroups(n int) ([]ShardGroupInfo, []int64, []int64) {
	gs := make([]ShardGroupInfo, n)
	ss, es := make([]int64, n), make([]int64, n)
	deleted := make([]bool, n)
	for i := 0; i < n; i++ {
		var st, en time.Time
		st, ss[i] = verifTime(vrt.N("g_start", i))
		en, es[i] = verifTime(vrt.N("g_end", i))
		vrt.Assume(ss[i] < es[i])
		// a group may be deleted and not yet pruned: it keeps its place in the list (sorted by end, then
		// start) but takes no part in the disjointness of live groups (it may stem from another duration)
		deleted[i] = vrt.Bound("DELETED", 0) == 1 && vrt.Choose(vrt.N("g_deleted", i), 0, 1) == 1
		if i > 0 {
			vrt.Assume(vrt.Or(es[i-1] < es[i], vrt.And(es[i-1] == es[i], ss[i-1] <= ss[i])))
		}
		for j := 0; j < i; j++ {
			if !deleted[i] && !deleted[j] {
				vrt.Assume(es[j] <= ss[i])
			}
		}
		gs[i] = ShardGroupInfo{ID: uint64(i + 1), StartTime: st, EndTime: en, Shards: []ShardInfo{{ID: uint64(i + 1)}}}
		if deleted[i] {
			gs[i].DeletedAt = time.Unix(1000000000, 0).UTC()
		}
	}
	return gs, ss, es
}

// VerifC18_CreateShardGroup: from any valid layout of up to G live groups, creating a group for an
// arbitrary timestamp yields a group [start,end) containing the timestamp; live groups stay pairwise
// disjoint; lookup by timestamp finds a group containing it.
func VerifC18_CreateShardGroup() {
	G := vrt.Choose("groups", 0, vrt.Bound("G", 2))
	d := verifDurations[vrt.Choose("duration", 0, vrt.Bound("D", 2))]
	gs, _, _ := verifGroups(G)
	data := &Data{MaxShardGroupID: uint64(G), MaxShardID: uint64(G), Databases: []DatabaseInfo{{Name: "db", DefaultRetentionPolicy: "rp",
		RetentionPolicies: []RetentionPolicyInfo{{Name: "rp", ReplicaN: 1, ShardGroupDuration: d, ShardGroups: gs}}}}}
	ts, t := verifTime("t")
	err := data.CreateShardGroup("db", "rp", ts)
	vrt.Assert(err == nil, "create: succeeds")
	g, err := data.ShardGroupByTimestamp("db", "rp", ts)
	vrt.Assert(err == nil && g != nil, "lookup: a group exists for the timestamp after create")
	if g == nil {
		return
	}
	vrt.Assert(g.Contains(ts), "lookup: the group's [start,end) contains the timestamp")
	vrt.Assert(!g.Deleted(), "lookup: the group found for a write is live")
	_ = t
	// persisted and reloaded, the group keeps its bounds: it still contains the timestamp and
	// compares equal bound by bound
	var back ShardGroupInfo
	back.unmarshal(g.marshal())
	vrt.Assert(back.Contains(ts), "reload: the reloaded group still contains the timestamp")
	vrt.Assert(vrt.And(back.StartTime.Equal(g.StartTime), back.EndTime.Equal(g.EndTime)), "reload: the reloaded group has the same bounds")
	rp, _ := data.RetentionPolicy("db", "rp")
	all := rp.ShardGroups
	for i := range all {
		vrt.Assert(all[i].StartTime.Before(all[i].EndTime), "layout: start < end")
		for j := i + 1; j < len(all); j++ {
			if all[i].Deleted() || all[j].Deleted() {
				continue
			}
			// [si,ei) and [sj,ej) disjoint
			vrt.Assert(vrt.Or(!all[i].EndTime.After(all[j].StartTime), !all[j].EndTime.After(all[i].StartTime)), "layout: live groups never overlap")
		}
	}
	for i := 1; i < len(all); i++ {
		vrt.Assert(!all[i].EndTime.Before(all[i-1].EndTime), "layout: groups kept sorted by end time")
	}
	vrt.Reach("end")
}

// VerifC18_MarshalRoundTrip: a group's bounds survive the (un)marshal of the persisted form for every
// representable start/end, including exactly 1970-01-01T00:00:00Z; an unset DeletedAt/TruncatedAt
// stays unset and a set one keeps its value.
func VerifC18_MarshalRoundTrip() {
	st, s := verifTime("start")
	en, e := verifTime("end")
	vrt.Assume(s < e)
	g := ShardGroupInfo{ID: 7, StartTime: st, EndTime: en, Shards: []ShardInfo{{ID: 9}}}
	hasDel := vrt.Choose("deleted", 0, 1) == 1
	hasTrunc := vrt.Choose("truncated", 0, 1) == 1
	var dx, tx int64
	if hasDel {
		g.DeletedAt, dx = verifTime("deleted_at")
		vrt.Assume(dx > 946684800000000000) // set by time.Now(): after 2000
	}
	if hasTrunc {
		g.TruncatedAt, tx = verifTime("truncated_at")
		vrt.Assume(tx > 946684800000000000)
	}
	pb := g.marshal()
	var back ShardGroupInfo
	back.unmarshal(pb)
	vrt.Assert(back.ID == 7, "roundtrip: id")
	vrt.Assert(back.StartTime.Equal(st), "roundtrip: start bound preserved")
	vrt.Assert(back.EndTime.Equal(en), "roundtrip: end bound preserved")
	vrt.Assert(back.StartTime.UnixNano() == s, "roundtrip: start nanoseconds")
	vrt.Assert(back.EndTime.UnixNano() == e, "roundtrip: end nanoseconds")
	vrt.Assert(back.Deleted() == hasDel, "roundtrip: deleted flag")
	vrt.Assert(back.Truncated() == hasTrunc, "roundtrip: truncated flag")
	if hasDel {
		vrt.Assert(back.DeletedAt.Equal(g.DeletedAt), "roundtrip: deleted-at preserved")
	}
	if hasTrunc {
		vrt.Assert(back.TruncatedAt.Equal(g.TruncatedAt), "roundtrip: truncated-at preserved")
	}
	vrt.Assert(len(back.Shards) == 1 && back.Shards[0].ID == 9, "roundtrip: shards")
	// a lookup that found the group before still finds it
	_, q := verifTime("q")
	qt := time.Unix(0, q).UTC()
	vrt.Assert(back.Contains(qt) == g.Contains(qt), "roundtrip: Contains unchanged for every timestamp")
	vrt.Reach("end")
}

// VerifC18_TimeMarshal: UnmarshalTime(MarshalTime(x)) == x for every representable instant but the
// epoch itself (which the group (un)marshal code special-cases), and the zero time maps to itself.
func VerifC18_TimeMarshal() {
	tm, x := verifTime("x")
	vrt.Assume(x != 0)
	vrt.Assert(UnmarshalTime(MarshalTime(tm)).Equal(tm), "time marshal: round trip")
	vrt.Assert(MarshalTime(tm) == x, "time marshal: nanoseconds since epoch")
	vrt.Assert(UnmarshalTime(MarshalTime(time.Time{})).IsZero(), "time marshal: zero stays zero")
	vrt.Reach("end")
}
