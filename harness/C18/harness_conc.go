package meta

import (
	"time"

	vrt "github.com/influxdata/influxdb/v2/internal/zzverifrt"
	"github.com/influxdata/influxdb/v2/kit/platform"
	"github.com/influxdata/influxdb/v2/kv"
)

// the snapshot to the kv store is not the subject (C18's persistence is the marshal entries)
func verifSnapshotNoop(store kv.Store, data *Data) error { return nil }

var _ platform.ID

// VerifC18_ConcurrentCreate: two writers ask the real meta.Client for the shard group of their (arbitrary)
// timestamps at the same time, from a layout with 0..G existing groups. Every schedule with up to PREEMPT
// pre-emptions at the client's mutex operations is explored. Both get a live group containing their
// timestamp; two timestamps of one window get the same group; live groups of the committed layout never
// overlap.
func VerifC18_ConcurrentCreate() {
	G := vrt.Choose("groups", 0, vrt.Bound("G", 0))
	d := verifDurations[vrt.Choose("duration", 0, vrt.Bound("D", 1))]
	gs, _, _ := verifGroups(G)
	data := &Data{MaxShardGroupID: uint64(G), MaxShardID: uint64(G), Databases: []DatabaseInfo{{Name: "db", DefaultRetentionPolicy: "rp",
		RetentionPolicies: []RetentionPolicyInfo{{Name: "rp", ReplicaN: 1, ShardGroupDuration: d, ShardGroups: gs}}}}}
	c := &Client{cacheData: data, changed: make(chan struct{})}
	var ts [2]time.Time
	var got [2]*ShardGroupInfo
	var errs [2]error
	for i := 0; i < 2; i++ {
		i := i
		ts[i], _ = verifTime(vrt.N("t", i))
		vrt.Go(func() { got[i], errs[i] = c.CreateShardGroup("db", "rp", ts[i]) })
	}
	vrt.Join()
	for i := 0; i < 2; i++ {
		vrt.Assert(errs[i] == nil && got[i] != nil, "create: succeeds")
		if got[i] == nil {
			return
		}
		vrt.Assert(got[i].Contains(ts[i]), "the group handed to a writer contains its timestamp")
		vrt.Assert(!got[i].Deleted(), "the group handed to a writer is live")
	}
	if got[0].Contains(ts[1]) || got[1].Contains(ts[0]) {
		vrt.Assert(got[0].ID == got[1].ID, "two timestamps of one window get the same group")
	}
	rp, _ := c.cacheData.RetentionPolicy("db", "rp")
	all := rp.ShardGroups
	for i := range all {
		for j := i + 1; j < len(all); j++ {
			if all[i].Deleted() || all[j].Deleted() {
				continue
			}
			vrt.Assert(all[i].ID != all[j].ID, "layout: group ids are unique")
			vrt.Assert(vrt.Or(!all[i].EndTime.After(all[j].StartTime), !all[j].EndTime.After(all[i].StartTime)), "layout: live groups never overlap")
		}
	}
	for i := 0; i < 2; i++ {
		g, _ := c.cacheData.ShardGroupByTimestamp("db", "rp", ts[i])
		vrt.Assert(g != nil && g.ID == got[i].ID, "the committed layout maps the timestamp to the group the writer got")
	}
	vrt.Reach("end")
}
