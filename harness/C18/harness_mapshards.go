package coordinator

import (
	"time"

	vrt "github.com/influxdata/influxdb/v2/internal/zzverifrt"
	"github.com/influxdata/influxdb/v2/models"
	"github.com/influxdata/influxdb/v2/v1/services/meta"
)

var verifNowNs int64

func verifNow() time.Time { return time.Unix(0, verifNowNs) }

// meta client over a real meta.Data (CreateShardGroup / ShardGroupByTimestamp are the real code)
type verifMetaClient struct{ data *meta.Data }

func (m *verifMetaClient) Database(name string) *meta.DatabaseInfo { return m.data.Database(name) }
func (m *verifMetaClient) RetentionPolicy(db, rp string) (*meta.RetentionPolicyInfo, error) {
	return m.data.RetentionPolicy(db, rp)
}
func (m *verifMetaClient) CreateShardGroup(db, rp string, ts time.Time) (*meta.ShardGroupInfo, error) {
	if err := m.data.CreateShardGroup(db, rp, ts); err != nil {
		return nil, err
	}
	return m.data.ShardGroupByTimestamp(db, rp, ts)
}

type verifTimedPoint struct {
	models.Point
	t time.Time
}

func (p *verifTimedPoint) Time() time.Time { return p.t }
func (p *verifTimedPoint) HashID() uint64  { return 7 }

// VerifC18_MapShards: PointsWriter.MapShards for P points with arbitrary timestamps against a policy
// with a symbolic retention period (0 = infinite) at a symbolic instant, starting from G existing shard
// groups: every point is either mapped to a shard whose group contains its timestamp, or dropped, and
// it is dropped exactly when it is older than now - retention; no point is mapped twice or lost.
func VerifC18_MapShards() {
	P, G := vrt.Bound("P", 2), vrt.Choose("groups", 0, vrt.Bound("G", 1))
	durs := []time.Duration{time.Hour, 24 * time.Hour}
	d := durs[vrt.Choose("duration", 0, vrt.Bound("D", 0))]
	nowx := vrt.Int64("now")
	vrt.Assume(nowx >= 0)
	vrt.Assume(nowx <= 7258118400000000000)
	verifNowNs = nowx
	ret := vrt.Int64("retention")
	vrt.Assume(ret >= 0)
	vrt.Assume(ret <= 1900000000000000000)
	var gs []meta.ShardGroupInfo
	var lastEnd int64
	for i := 0; i < G; i++ {
		s, e := vrt.Int64(vrt.N("g_start", i)), vrt.Int64(vrt.N("g_end", i))
		vrt.Assume(s >= models.MinNanoTime)
		vrt.Assume(e <= models.MaxNanoTime)
		vrt.Assume(s < e)
		if i > 0 {
			vrt.Assume(lastEnd <= s)
		}
		lastEnd = e
		gs = append(gs, meta.ShardGroupInfo{ID: uint64(i + 1), StartTime: time.Unix(0, s).UTC(), EndTime: time.Unix(0, e).UTC(),
			Shards: []meta.ShardInfo{{ID: uint64(i + 1)}}})
	}
	data := &meta.Data{MaxShardGroupID: uint64(G), MaxShardID: uint64(G), Databases: []meta.DatabaseInfo{{Name: "db", DefaultRetentionPolicy: "rp",
		RetentionPolicies: []meta.RetentionPolicyInfo{{Name: "rp", ReplicaN: 1, Duration: time.Duration(ret), ShardGroupDuration: d, ShardGroups: gs}}}}}
	w := &PointsWriter{MetaClient: &verifMetaClient{data: data}}
	req := &WritePointsRequest{Database: "db", RetentionPolicy: "rp"}
	ts := make([]int64, P)
	pts := make([]*verifTimedPoint, P)
	for i := 0; i < P; i++ {
		ts[i] = vrt.Int64(vrt.N("t", i))
		vrt.Assume(ts[i] >= models.MinNanoTime)
		vrt.Assume(ts[i] <= models.MaxNanoTime)
		pts[i] = &verifTimedPoint{t: time.Unix(0, ts[i]).UTC()}
		req.Points = append(req.Points, pts[i])
	}
	m, err := w.MapShards(req)
	vrt.Assert(err == nil && m != nil, "MapShards succeeds")
	if m == nil {
		return
	}
	mapped := make([]int, P)
	for shardID, ps := range m.Points {
		// the group owning this shard
		var grp *meta.ShardGroupInfo
		rp, _ := data.RetentionPolicy("db", "rp")
		for gi := range rp.ShardGroups {
			for _, sh := range rp.ShardGroups[gi].Shards {
				if sh.ID == shardID {
					grp = &rp.ShardGroups[gi]
				}
			}
		}
		vrt.Assert(grp != nil, "a mapped shard belongs to a shard group of the policy")
		for _, p := range ps {
			for i := range pts {
				if p == models.Point(pts[i]) {
					mapped[i]++
					if grp != nil {
						vrt.Assert(grp.Contains(pts[i].t), "a point is mapped to a shard whose group contains its timestamp")
					}
				}
			}
		}
	}
	dropped := 0
	for i := range pts {
		old := vrt.And(ret > 0, ts[i] < nowx-ret)
		vrt.Assert(mapped[i] <= 1, "a point is mapped at most once")
		vrt.Assert((mapped[i] == 0) == old, "a point is dropped exactly when it is older than now - retention")
		if mapped[i] == 0 {
			dropped++
		}
	}
	vrt.Assert(m.Dropped() == dropped, "the dropped count is the number of points not mapped")
	vrt.Reach("end")
}
