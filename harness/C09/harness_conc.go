package tsm1

import (
	"sync/atomic"

	vrt "github.com/influxdata/influxdb/v2/internal/zzverifrt"
)

// bytes the cache accounts for the values and keys held by a store
func verifHeldBytes(s storer) uint64 {
	var n uint64
	_ = s.applySerial(func(k []byte, e *entry) error {
		e.mu.RLock()
		if len(e.values) > 0 {
			n += uint64(len(k)) + uint64(e.values.Size())
		}
		e.mu.RUnlock()
		return nil
	})
	return n
}

func verifHas(vals Values, t, v int64) bool {
	r := false
	for i := range vals {
		r = vrt.Or(r, vrt.And(vals[i].UnixNano() == t, vals[i].Value().(int64) == v))
	}
	return r
}

// VerifC09_Conc*: goroutines run the cache operations concurrently, on the Cache alone (no engine lock
// around them: since /repo commit e32fe61f43 WriteMulti keeps the cache's read lock while it writes, so
// the cache no longer relies on Engine.mu to keep writes and Snapshot apart). Every schedule with up to PREEMPT
// pre-emptions at the mutex/atomic operations of package tsm1 is explored. After all goroutines ended:
// no acknowledged write is lost unless it was flushed or deleted, nothing appears that was not written,
// and Size() equals the bytes of the values and keys actually held.
//
// SCEN 0: two writers (same or different key); 1: writer || Snapshot;ClearSnapshot; 2: writer ||
// DeleteRange; 3: writer || writer || Snapshot;ClearSnapshot.
func VerifC09_ConcWriters()         { verifC09Concurrent(0) }
func VerifC09_ConcWriteSnapshot()   { verifC09Concurrent(1) }
func VerifC09_ConcWriteDelete()     { verifC09Concurrent(2) }
func VerifC09_ConcWritersSnapshot() { verifC09Concurrent(3) }

// a key that already holds a point is range-deleted while another point is written to it
func VerifC09_ConcWriteDeleteExisting() { verifC09Concurrent(4) }

// VerifC09_ConcTypeConflict: two writers race on a new key with different value types (and each also
// writes an integer to its own second key): exactly one of them is refused, for that key only; the key
// holds the other's value; the sizes account for exactly what is held.
func VerifC09_ConcTypeConflict() {
	c := verifNewCache(0)
	var errI, errF error
	ti, vi, tf := vrt.Int64("ti"), vrt.Int64("vi"), vrt.Int64("tf")
	vrt.Go(func() {
		errI = c.WriteMulti(map[string][]Value{"k": {NewIntegerValue(ti, vi)}, "own_i": {NewIntegerValue(1, 1)}})
	})
	vrt.Go(func() {
		errF = c.WriteMulti(map[string][]Value{"k": {NewFloatValue(tf, 1.5)}, "own_f": {NewIntegerValue(2, 2)}})
	})
	vrt.Join()
	vrt.Assert((errI == nil) != (errF == nil), "exactly one of two conflicting writers is refused")
	vals := c.Values([]byte("k"))
	vrt.Assert(len(vals) == 1, "the contested key holds one value")
	if len(vals) == 1 {
		_, isInt := vals[0].Value().(int64)
		vrt.Assert(isInt == (errI == nil), "the contested key holds the value of the accepted writer")
		if isInt {
			vrt.Assert(vrt.And(vals[0].UnixNano() == ti, vals[0].Value().(int64) == vi), "the accepted integer is stored unchanged")
		} else {
			vrt.Assert(vals[0].UnixNano() == tf, "the accepted float is stored unchanged")
		}
	}
	vrt.Assert(len(c.Values([]byte("own_i"))) == 1 && len(c.Values([]byte("own_f"))) == 1, "the refusal concerns the contested key only")
	c.mu.RLock()
	hot := verifHeldBytes(c.store)
	c.mu.RUnlock()
	vrt.Assert(c.Size() == hot, "Size() equals the bytes of the values and keys actually held")
	vrt.Reach("end")
}

// VerifC09_ConcLimit: two writers of 16+1 bytes each race against a limit that has room for one of them.
func VerifC09_ConcLimit() {
	limit := vrt.Uint64("limit")
	vrt.Assume(limit >= 17)
	vrt.Assume(limit < 33) // the second write (17 held + 16 added) does not fit
	c := verifNewCache(limit)
	var err [2]error
	for i := 0; i < 2; i++ {
		i := i
		k := []string{"a", "b"}[i]
		t := vrt.Int64(vrt.N("t", i))
		vrt.Go(func() {
			err[i] = c.WriteMulti(map[string][]Value{k: {NewIntegerValue(t, 7)}})
		})
	}
	vrt.Join()
	c.mu.RLock()
	hot := verifHeldBytes(c.store)
	c.mu.RUnlock()
	vrt.Assert(c.Size() == hot, "Size() equals the bytes of the values and keys actually held")
	vrt.Assert(!(err[0] == nil && err[1] == nil), "of two concurrent writes only one of which fits, one is refused")
	vrt.Assert(err[0] == nil || err[1] == nil, "a write that fits is accepted")
	vrt.Reach("end")
}

func verifC09Concurrent(scen int) {
	c := verifNewCache(0)
	keys := []string{"a", "bb"}
	type wr struct {
		k    int
		t, v int64
		err  error
		done bool
	}
	writer := func(w *wr) func() {
		return func() {
			w.err = c.WriteMulti(map[string][]Value{keys[w.k]: {NewIntegerValue(w.t, w.v)}})
			w.done = true
		}
	}
	newWr := func(i int) *wr {
		w := &wr{k: vrt.Choose(vrt.N("key", i), 0, 1), t: vrt.Int64(vrt.N("t", i)), v: vrt.Int64(vrt.N("v", i))}
		return w
	}
	var ws []*wr
	snapTaken, cleared, success := false, false, false
	snapshotter := func() {
		_, err := c.Snapshot()
		vrt.Assert(err == nil, "Snapshot succeeds")
		snapTaken = true
		c.ClearSnapshot(success)
		cleared = true
	}
	var dk int
	var dmin, dmax int64
	deleted := false
	deleter := func() {
		c.DeleteRange([][]byte{[]byte(keys[dk])}, dmin, dmax)
		deleted = true
	}
	switch scen {
	case 0:
		ws = append(ws, newWr(0), newWr(1))
		vrt.Assume(vrt.Or(ws[0].k != ws[1].k, ws[0].t != ws[1].t)) // distinct points (duplicates: known finding DuplicateSize)
		vrt.Go(writer(ws[0]))
		vrt.Go(writer(ws[1]))
	case 1:
		ws = append(ws, newWr(0))
		success = vrt.Choose("success", 0, 1) == 1
		vrt.Go(writer(ws[0]))
		vrt.Go(snapshotter)
	case 2:
		ws = append(ws, newWr(0))
		dk = vrt.Choose("dkey", 0, 1)
		dmin, dmax = vrt.Int64("dmin"), vrt.Int64("dmax")
		vrt.Go(writer(ws[0]))
		vrt.Go(deleter)
	case 4:
		// p0 was written before; the delete is aimed at its key
		w0 := newWr(0)
		ws = append(ws, w0)
		w0.err = c.WriteMulti(map[string][]Value{keys[w0.k]: {NewIntegerValue(w0.t, w0.v)}})
		w0.done = true
		w1 := newWr(1)
		vrt.Assume(vrt.Or(w0.k != w1.k, w0.t != w1.t))
		ws = append(ws, w1)
		dk = w0.k
		dmin, dmax = vrt.Int64("dmin"), vrt.Int64("dmax")
		vrt.Go(writer(w1))
		vrt.Go(deleter)
	case 3:
		ws = append(ws, newWr(0), newWr(1))
		vrt.Assume(vrt.Or(ws[0].k != ws[1].k, ws[0].t != ws[1].t))
		success = vrt.Choose("success", 0, 1) == 1
		vrt.Go(writer(ws[0]))
		vrt.Go(writer(ws[1]))
		vrt.Go(snapshotter)
	}
	vrt.Join()

	for _, w := range ws {
		vrt.Assert(w.done && w.err == nil, "a write below the limit is accepted")
	}
	flushed := snapTaken && cleared && success
	for k := range keys {
		vals := c.Values([]byte(keys[k]))
		for i := 1; i < len(vals); i++ {
			vrt.Assert(vals[i-1].UnixNano() < vals[i].UnixNano(), "Values are sorted by time without duplicates")
		}
		for i := range vals {
			from := false
			for _, w := range ws {
				from = vrt.Or(from, vrt.And(w.k == k, vals[i].UnixNano() == w.t, vals[i].Value().(int64) == w.v))
			}
			vrt.Assert(from, "every value returned was written")
		}
		for _, w := range ws {
			if w.k != k {
				continue
			}
			mayBeGone := flushed
			if deleted && dk == k {
				mayBeGone = vrt.Or(mayBeGone, vrt.And(dmin <= w.t, w.t <= dmax))
			}
			vrt.Assert(vrt.Or(mayBeGone, verifHas(vals, w.t, w.v)), "an acknowledged write is readable unless it was flushed or deleted")
		}
	}
	c.mu.RLock()
	hot := verifHeldBytes(c.store)
	var snap uint64
	if c.snapshot != nil {
		snap = verifHeldBytes(c.snapshot.store)
	}
	c.mu.RUnlock()
	vrt.Assert(atomic.LoadUint64(&c.size) == hot, "size equals the bytes of the hot values and keys held")
	vrt.Assert(atomic.LoadUint64(&c.snapshotSize) == snap, "snapshotSize equals the bytes held by the retained snapshot")
	vrt.Assert(c.Size() == hot+snap, "Size() equals the bytes of the values and keys actually held")
	vrt.Reach("end")
}

// VerifC09_ConcReadDuringSnapshot: a point p0 is in the hot store; then a writer (p1, same key), a
// snapshotter (Snapshot under the engine lock, and ClearSnapshot(false) — the snapshot is retained) and a
// reader (Values of the key) run concurrently. The reader always sees p0 (it is in the hot store or in the
// snapshot at every instant), sees p1 if the write completed before the read began and not if it began
// after the read ended, and what it returns is sorted without duplicates.
func VerifC09_ConcReadDuringSnapshot() {
	c := verifNewCache(0)
	t0, v0, t1, v1 := vrt.Int64("t0"), vrt.Int64("v0"), vrt.Int64("t1"), vrt.Int64("v1")
	vrt.Assume(t0 != t1)
	vrt.Assert(c.WriteMulti(map[string][]Value{"k": {NewIntegerValue(t0, v0)}}) == nil, "first write")
	clock := 0
	tick := func() int { clock++; return clock }
	var wStart, wEnd, rStart, rEnd int
	var got Values
	vrt.Go(func() {
		wStart = tick()
		err := c.WriteMulti(map[string][]Value{"k": {NewIntegerValue(t1, v1)}})
		vrt.Assert(err == nil, "a write below the limit is accepted")
		wEnd = tick()
	})
	vrt.Go(func() {
		_, err := c.Snapshot()
		vrt.Assert(err == nil, "Snapshot succeeds")
		c.ClearSnapshot(false)
	})
	vrt.Go(func() {
		rStart = tick()
		got = c.Values([]byte("k"))
		rEnd = tick()
	})
	vrt.Join()
	check := func(vals Values, label string, mustP1, mustNotP1 bool) {
		for i := 1; i < len(vals); i++ {
			vrt.Assert(vals[i-1].UnixNano() < vals[i].UnixNano(), label+": sorted by time without duplicates")
		}
		for i := range vals {
			vrt.Assert(vrt.Or(vrt.And(vals[i].UnixNano() == t0, vals[i].Value().(int64) == v0), vrt.And(vals[i].UnixNano() == t1, vals[i].Value().(int64) == v1)), label+": every value returned was written")
		}
		vrt.Assert(verifHas(vals, t0, v0), label+": a point that was neither deleted nor flushed is readable at every instant")
		if mustP1 {
			vrt.Assert(verifHas(vals, t1, v1), label+": a write that completed before the read is visible")
		}
		if mustNotP1 {
			vrt.Assert(!verifHas(vals, t1, v1), label+": a write that began after the read is not visible")
		}
	}
	check(got, "concurrent read", wEnd != 0 && wEnd < rStart, wStart > rEnd)
	check(c.Values([]byte("k")), "final read", true, false)
	c.mu.RLock()
	hot, snap := verifHeldBytes(c.store), verifHeldBytes(c.snapshot.store)
	c.mu.RUnlock()
	vrt.Assert(c.Size() == hot+snap, "Size() equals the bytes of the values and keys actually held")
	vrt.Reach("end")
}
