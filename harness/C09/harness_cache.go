package tsm1

import (
	"math"
	"sync"

	vrt "github.com/influxdata/influxdb/v2/internal/zzverifrt"
	"github.com/prometheus/client_golang/prometheus"
)

// no-op metrics: the Prometheus vectors are process-global registries and not the subject
type verifGauge struct{ prometheus.Gauge }

func (verifGauge) Set(float64)       {}
func (verifGauge) Inc()              {}
func (verifGauge) Add(float64)       {}
func (verifGauge) SetToCurrentTime() {}

type verifCounter struct{ prometheus.Counter }

func (verifCounter) Inc()        {}
func (verifCounter) Add(float64) {}

func verifNewCache(limit uint64) *Cache {
	c := &Cache{
		maxSize: limit,
		store:   emptyStore{},
		stats: &cacheMetrics{
			MemBytes: verifGauge{}, DiskBytes: verifGauge{}, LastSnapshot: verifGauge{},
			Writes: verifCounter{}, WriteErr: verifCounter{}, WriteDropped: verifCounter{},
		},
	}
	c.initialize.Store(&sync.Once{})
	return c
}

// reference model of the cache: every point ever written, with where it currently lives
type verifCPoint struct {
	key   int
	ts, v int64
	gen   int  // global write order; later wins on equal timestamps
	live  bool // not removed by a DeleteRange while hot
	hot   bool
	snap  bool
}

type verifCModel struct {
	keys         []string
	pts          []verifCPoint
	gen          int
	snapSize     uint64 // accounted bytes of the retained snapshot
	snapshotting bool
	hotFloat     [2]bool // hot entry of key k holds float values (type-conflict scenario)
}

func (m *verifCModel) present(k int) bool {
	p := false
	for i := range m.pts {
		if m.pts[i].key == k && m.pts[i].hot {
			p = vrt.Or(p, m.pts[i].live)
		}
	}
	return p
}

func (m *verifCModel) hotSize() uint64 {
	var sz uint64
	for i := range m.pts {
		if m.pts[i].hot {
			sz += vrt.Ite(m.pts[i].live, uint64(16), uint64(0))
		}
	}
	for k := range m.keys {
		sz += vrt.Ite(m.present(k), uint64(len(m.keys[k])), uint64(0))
	}
	return sz
}

// no two live hot points of one key share a timestamp (deduplication then never drops a value, so
// the byte accounting made at write time is exact)
func (m *verifCModel) hotDistinct() bool {
	d := true
	for i := range m.pts {
		for j := i + 1; j < len(m.pts); j++ {
			if m.pts[i].hot && m.pts[j].hot && m.pts[i].key == m.pts[j].key {
				d = vrt.And(d, m.pts[i].ts != m.pts[j].ts)
			}
		}
	}
	return d
}

func (m *verifCModel) check(c *Cache, distinct bool, label string) {
	for k := range m.keys {
		var ps []verifPoint
		for i := range m.pts {
			p := m.pts[i]
			if p.key == k && (p.hot || p.snap) {
				ps = append(ps, verifPoint{ts: p.ts, v: p.v, file: p.gen, live: p.live})
			}
		}
		vals := c.Values([]byte(m.keys[k]))
		ts, vs := make([]int64, len(vals)), make([]int64, len(vals))
		for i := range vals {
			ts[i] = vals[i].UnixNano()
			vs[i] = vals[i].Value().(int64)
		}
		verifCheckOutput(ps, func(int64) bool { return true }, ts, vs, true, label+" Values")
	}
	vrt.Assert(vrt.Implies(distinct, c.Size() == m.hotSize()+m.snapSize), label+": Size() equals the bytes of the values and keys held (hot + retained snapshot)")
}

// VerifC09_History: a history of up to STEPS operations (WriteMulti of one or two keys, Snapshot,
// ClearSnapshot(success|failure), DeleteRange) with symbolic timestamps, values, delete ranges and
// size limit, checked against the reference model after every step.
func VerifC09_History() {
	STEPS, P := vrt.Bound("STEPS", 3), vrt.Bound("P", 2)
	limit := vrt.Uint64("limit")
	vrt.Assume(limit < 1<<20)
	c := verifNewCache(limit)
	m := &verifCModel{keys: []string{"a", "bb"}}
	distinct := true
	for s := 0; s < STEPS; s++ {
		op := vrt.Choose(vrt.N("op", s), 0, 4)
		switch op {
		case 0, 1: // WriteMulti; op 1 writes both keys
			nk := op + 1
			first := 0
			if nk == 1 {
				first = vrt.Choose(vrt.N("key", s), 0, 1)
			}
			batch := map[string][]Value{}
			var added []verifCPoint
			var bytes uint64
			for k := first; k < first+nk; k++ {
				n := vrt.Choose(vrt.N("n", s, k), 1, P)
				var vals []Value
				for i := 0; i < n; i++ {
					t, v := vrt.Int64(vrt.N("t", s, k, i)), vrt.Int64(vrt.N("v", s, k, i))
					vals = append(vals, NewIntegerValue(t, v))
					m.gen++
					added = append(added, verifCPoint{key: k, ts: t, v: v, gen: m.gen, live: true, hot: true})
				}
				bytes += uint64(16 * n)
				batch[m.keys[k]] = vals
			}
			before := m.hotSize() + m.snapSize
			err := c.WriteMulti(batch)
			if err != nil {
				vrt.Reach("write rejected")
				vrt.Assert(vrt.And(limit > 0, before+bytes > limit), "WriteMulti of integers onto integer keys fails only for the size limit")
				// nothing stored: the model is unchanged and is compared below
			} else {
				vrt.Assert(vrt.Implies(distinct, vrt.Or(limit == 0, before+bytes <= limit)), "an accepted write does not take the held value bytes over the limit")
				m.pts = append(m.pts, added...)
			}
		case 2: // Snapshot
			_, err := c.Snapshot()
			if m.snapshotting {
				vrt.Assert(err == ErrSnapshotInProgress, "second Snapshot while one is in progress is refused")
				break
			}
			vrt.Assert(err == nil, "Snapshot succeeds")
			m.snapshotting = true
			if m.snapSize > 0 {
				vrt.Reach("snapshot retried")
				break // a failed snapshot is retained and retried as is
			}
			m.snapSize = m.hotSize()
			for i := range m.pts {
				if m.pts[i].hot {
					m.pts[i].hot, m.pts[i].snap = false, true
				}
			}
		case 3: // ClearSnapshot
			if !m.snapshotting {
				break
			}
			success := vrt.Choose(vrt.N("success", s), 0, 1) == 1
			c.ClearSnapshot(success)
			m.snapshotting = false
			if success {
				m.snapSize = 0
				for i := range m.pts {
					m.pts[i].snap = false
				}
			} else {
				vrt.Reach("snapshot failed")
			}
		case 4: // DeleteRange on the hot store
			k := vrt.Choose(vrt.N("dkey", s), 0, 1)
			min, max := vrt.Int64(vrt.N("dmin", s)), vrt.Int64(vrt.N("dmax", s))
			if vrt.Choose(vrt.N("dall", s), 0, 1) == 1 {
				min, max = math.MinInt64, math.MaxInt64
			}
			c.DeleteRange([][]byte{[]byte(m.keys[k])}, min, max)
			for i := range m.pts {
				if m.pts[i].key == k && m.pts[i].hot {
					m.pts[i].live = vrt.And(m.pts[i].live, vrt.Not(vrt.And(min <= m.pts[i].ts, m.pts[i].ts <= max)))
				}
			}
		}
		distinct = vrt.And(distinct, m.hotDistinct())
		m.check(c, distinct, "after step")
	}
	vrt.Reach("end")
}

// VerifC09_TypeConflict: a WriteMulti carrying integers for key a and floats for key bb, where bb
// already holds integers in the hot store: the error is reported, bb is unchanged, a is stored, and
// the size accounts for exactly what was stored.
func VerifC09_TypeConflict() {
	limit := vrt.Uint64("limit")
	vrt.Assume(limit == 0 || (limit >= 64 && limit < 1<<20))
	c := verifNewCache(limit)
	m := &verifCModel{keys: []string{"a", "bb"}}
	t0, v0 := vrt.Int64("t0"), vrt.Int64("v0")
	err := c.WriteMulti(map[string][]Value{"bb": {NewIntegerValue(t0, v0)}})
	vrt.Assert(err == nil, "first write fits")
	m.pts = append(m.pts, verifCPoint{key: 1, ts: t0, v: v0, gen: 1, live: true, hot: true})
	if vrt.Choose("snapshot_between", 0, 1) == 1 {
		// the conflicting key then lives only in the snapshot: Values would mix types, which the
		// engine prevents above the cache; not part of the claim
		vrt.Reach("end")
		return
	}
	t1, v1, t2 := vrt.Int64("t1"), vrt.Int64("v1"), vrt.Int64("t2")
	// the conflicting batch for bb: a float alone, or an integer followed by a float (the first value
	// has the key's type, a later one does not)
	conflicting := []Value{NewFloatValue(t2, 1.5)}
	if vrt.Choose("conflict_after_matching_value", 0, 1) == 1 {
		conflicting = []Value{NewIntegerValue(vrt.Int64("t3"), 9), NewFloatValue(t2, 1.5)}
	}
	err = c.WriteMulti(map[string][]Value{
		"a":  {NewIntegerValue(t1, v1)},
		"bb": conflicting,
	})
	if limit > 0 && limit < uint64(18+16+16*len(conflicting)) {
		vrt.Assert(err != nil, "over-limit write is rejected")
	} else {
		vrt.Assert(err != nil, "type conflict is reported")
		m.pts = append(m.pts, verifCPoint{key: 0, ts: t1, v: v1, gen: 2, live: true, hot: true})
		vrt.Reach("conflict")
	}
	m.check(c, true, "after conflicting write")
	vrt.Reach("end")
}

// VerifC09_DuplicateSize: the Size claim without the distinct-timestamps assumption (two points with
// the same timestamp written to one key, read, then deleted).
func VerifC09_DuplicateSize() {
	c := verifNewCache(0)
	m := &verifCModel{keys: []string{"a", "bb"}}
	t0, t1 := vrt.Int64("t0"), vrt.Int64("t1")
	_ = c.WriteMulti(map[string][]Value{"a": {NewIntegerValue(t0, 1), NewIntegerValue(t1, 2)}})
	m.pts = append(m.pts,
		verifCPoint{key: 0, ts: t0, v: 1, gen: 1, live: true, hot: true},
		verifCPoint{key: 0, ts: t1, v: 2, gen: 2, live: true, hot: true})
	m.check(c, true, "after write")
	c.DeleteRange([][]byte{[]byte("a")}, math.MinInt64, math.MaxInt64)
	vrt.Assert(c.Size() == 0, "Size() is zero after every key was deleted")
	vrt.Reach("end")
}
