package tsdb

import (
	"context"
	"errors"
	"os"
	"path/filepath"

	vrt "github.com/influxdata/influxdb/v2/internal/zzverifrt"
	"github.com/influxdata/influxdb/v2/models"
	internal "github.com/influxdata/influxdb/v2/tsdb/internal"
	"github.com/influxdata/influxql"
	"github.com/prometheus/client_golang/prometheus"
	"go.uber.org/zap"
	"go.uber.org/zap/zapcore"
	"google.golang.org/protobuf/proto"
)

// ---- stand-ins -------------------------------------------------------------------------------
type verifCtr struct{ prometheus.Counter }

func (verifCtr) Inc()        {}
func (verifCtr) Add(float64) {}

type verifObs struct{}

func (verifObs) Observe(float64) {}

func verifNewOperation(ctx context.Context, log *zap.Logger, msg, name string, fields ...zapcore.Field) (*zap.Logger, func()) {
	return log, func() {}
}

// the change manager's writer goroutine and its request/response channels, run synchronously
func verifSaveWriter(fscm *measurementFieldSetChangeMgr) { fscm.wg.Done() }
func verifRequestSave(fscm *measurementFieldSetChangeMgr, changes FieldChanges) error {
	done := make(chan error, 1)
	fscm.appendToChangesFile(writeRequest{errorReturn: done, changes: changes})
	return <-done
}

// protobuf wire format replaced (solver side only) by a transparent length-prefixed layout of the
// same messages; native replays use the real protobuf.
var errVerifShort = errors.New("verif codec: short buffer")

func verifPutBytes(b, x []byte) []byte { return append(append(b, byte(len(x))), x...) }
func verifGetBytes(b []byte) ([]byte, []byte, error) {
	if len(b) < 1 || len(b) < 1+int(b[0]) {
		return nil, nil, errVerifShort
	}
	return append([]byte(nil), b[1:1+int(b[0])]...), b[1+int(b[0]):], nil
}

func verifEncode(b []byte, m proto.Message) ([]byte, error) {
	switch x := m.(type) {
	case *internal.FieldChangeSet:
		b = append(b, byte(len(x.Changes)))
		for _, c := range x.Changes {
			b = verifPutBytes(b, c.Measurement)
			b = append(b, byte(c.Change))
			if c.Field == nil {
				b = append(b, 0)
			} else {
				b = append(b, 1)
				b = verifPutBytes(b, c.Field.Name)
				b = append(b, byte(c.Field.Type))
			}
		}
		return b, nil
	case *internal.MeasurementFieldSet:
		b = append(b, byte(len(x.Measurements)))
		for _, mm := range x.Measurements {
			b = verifPutBytes(b, mm.Name)
			b = append(b, byte(len(mm.Fields)))
			for _, f := range mm.Fields {
				b = verifPutBytes(b, f.Name)
				b = append(b, byte(f.Type))
			}
		}
		return b, nil
	}
	return nil, errors.New("verif codec: unknown message")
}

func verifMarshalAppend(o proto.MarshalOptions, b []byte, m proto.Message) ([]byte, error) {
	return verifEncode(b, m)
}
func verifMarshal(m proto.Message) ([]byte, error) { return verifEncode(nil, m) }
func verifUnmarshal(b []byte, m proto.Message) error {
	if len(b) < 1 {
		return errVerifShort
	}
	n := int(b[0])
	b = b[1:]
	var err error
	switch x := m.(type) {
	case *internal.FieldChangeSet:
		for i := 0; i < n; i++ {
			c := &internal.MeasurementFieldChange{}
			if c.Measurement, b, err = verifGetBytes(b); err != nil {
				return err
			}
			if len(b) < 2 {
				return errVerifShort
			}
			c.Change = internal.ChangeType(b[0])
			has := b[1]
			b = b[2:]
			if has == 1 {
				f := &internal.Field{}
				if f.Name, b, err = verifGetBytes(b); err != nil {
					return err
				}
				if len(b) < 1 {
					return errVerifShort
				}
				f.Type = int32(b[0])
				b = b[1:]
				c.Field = f
			}
			x.Changes = append(x.Changes, c)
		}
		return nil
	case *internal.MeasurementFieldSet:
		for i := 0; i < n; i++ {
			mm := &internal.MeasurementFields{}
			if mm.Name, b, err = verifGetBytes(b); err != nil {
				return err
			}
			if len(b) < 1 {
				return errVerifShort
			}
			nf := int(b[0])
			b = b[1:]
			for j := 0; j < nf; j++ {
				f := &internal.Field{}
				if f.Name, b, err = verifGetBytes(b); err != nil {
					return err
				}
				if len(b) < 1 {
					return errVerifShort
				}
				f.Type = int32(b[0])
				b = b[1:]
				mm.Fields = append(mm.Fields, f)
			}
			x.Measurements = append(x.Measurements, mm)
		}
		return nil
	}
	return errors.New("verif codec: unknown message")
}

// ---- a point whose field types are symbolic -----------------------------------------------------
type verifField struct {
	key string
	typ models.FieldType
}
type verifPoint struct {
	models.Point
	name   string
	fields []verifField
}

func (p *verifPoint) Name() []byte      { return []byte(p.name) }
func (p *verifPoint) Key() []byte       { return []byte(p.name + ",host=a") }
func (p *verifPoint) Tags() models.Tags { return models.Tags{{Key: []byte("host"), Value: []byte("a")}} }
func (p *verifPoint) StringSize() int   { return 64 }
func (p *verifPoint) FieldIterator() models.FieldIterator {
	return &verifFieldIter{p: p, i: -1}
}

type verifFieldIter struct {
	models.FieldIterator
	p *verifPoint
	i int
}

func (it *verifFieldIter) Next() bool             { it.i++; return it.i < len(it.p.fields) }
func (it *verifFieldIter) FieldKey() []byte       { return []byte(it.p.fields[it.i].key) }
func (it *verifFieldIter) Type() models.FieldType { return it.p.fields[it.i].typ }
func (it *verifFieldIter) StringValue() string    { return "s" }
func (it *verifFieldIter) Reset()                 { it.i = -1 }

// ---- the engine side the shard talks to -----------------------------------------------------
type verifEngine struct {
	Engine
	fs     *MeasurementFieldSet
	stored []*verifPoint
}

func (e *verifEngine) CreateSeriesListIfNotExists(keys, names [][]byte, tags []models.Tags) error {
	return nil
}
func (e *verifEngine) MeasurementFields(m []byte) *MeasurementFields {
	return e.fs.CreateFieldsIfNotExists(m)
}
func (e *verifEngine) MeasurementFieldSet() *MeasurementFieldSet { return e.fs }
func (e *verifEngine) WritePoints(ctx context.Context, pts []models.Point) error {
	for _, p := range pts {
		e.stored = append(e.stored, p.(*verifPoint))
	}
	return nil
}

func verifOpenShard(dir string) (*Shard, *verifEngine) {
	fs, err := NewMeasurementFieldSet(filepath.Join(dir, "fields.idx"), zap.NewNop())
	vrt.Assert(err == nil, "open: field index loads")
	e := &verifEngine{fs: fs}
	s := &Shard{_engine: e, enabled: true, stats: &ShardMetrics{writes: verifObs{}, writesErr: verifObs{},
		writesDropped: verifCtr{}, fieldsCreated: verifCtr{}}}
	return s, e
}

var verifMeasurements = []string{"cpu", "mem"}
var verifFieldNames = []string{"a", "value"}

// schema[m][f] = type recorded for field f of measurement m (0 = absent)
type verifSchema [2][2]influxql.DataType

func verifReadSchema(fs *MeasurementFieldSet) (s verifSchema) {
	for mi, m := range verifMeasurements {
		mf := fs.Fields([]byte(m))
		if mf == nil {
			continue
		}
		for fi, f := range verifFieldNames {
			if fld := mf.Field(f); fld != nil {
				s[mi][fi] = fld.Type
			}
		}
	}
	return s
}

// VerifC10_History: H steps, each a single-point write (1..2 fields with symbolic types) or a DROP
// MEASUREMENT (field set delete + logged deletion, as Engine.DeleteSeriesRange does), through the real
// Shard.WritePoints / validateSeriesAndFields / saveFieldsAndMeasurements and the real field index
// persistence. After every step the live checks hold; then the shard is closed cleanly, or dies
// (optionally with a torn record of one more in-flight change at the end of fields.idxl), and the
// reopened field index has exactly the schema the acknowledged steps left in memory.
func VerifC10_History() {
	H := vrt.Bound("H", 2)
	dir := filepath.Join(vrt.FSRoot(), "shard")
	vrt.Assert(os.MkdirAll(dir, 0o777) == nil, "mkdir")
	s, e := verifOpenShard(dir)
	var model verifSchema // the single type every field was first accepted with
	for h := 0; h < H; h++ {
		mi := vrt.Choose(vrt.N("measurement", h), 0, 1)
		if h > 0 && vrt.Choose(vrt.N("drop", h), 0, 1) == 1 {
			e.fs.Delete(verifMeasurements[mi])
			vrt.Assert(e.fs.Save(MeasurementsToFieldChangeDeletions([]string{verifMeasurements[mi]})) == nil, "drop: deletion logged")
			model[mi] = [2]influxql.DataType{}
			vrt.Reach("drop")
			continue
		}
		p := &verifPoint{name: verifMeasurements[mi]}
		nf := vrt.Choose(vrt.N("fields", h), 1, 2)
		first := 0
		if nf == 1 {
			first = vrt.Choose(vrt.N("field", h), 0, 1)
		}
		conflict := false
		for fi := first; fi < first+nf; fi++ {
			t := models.FieldType(vrt.Int(vrt.N("type", h, fi)))
			vrt.Assume(t >= models.Integer && t <= models.Unsigned) // Integer, Float, Boolean, String, Empty?, Unsigned
			vrt.Assume(t != models.Empty)
			p.fields = append(p.fields, verifField{key: verifFieldNames[fi], typ: t})
		}
		before := len(e.stored)
		err := s.WritePoints(context.Background(), []models.Point{p})
		// reference: fields are checked in order; the first field whose type differs from the recorded
		// one rejects the point; fields before it that were new stay created
		for _, f := range p.fields {
			fi := 0
			if f.key == verifFieldNames[1] {
				fi = 1
			}
			dt := dataTypeFromModelsFieldType(f.typ)
			if model[mi][fi] == 0 {
				model[mi][fi] = dt
			} else if model[mi][fi] != dt {
				conflict = true
				break
			}
		}
		if conflict {
			vrt.Reach("conflict")
			pw, ok := err.(PartialWriteError)
			vrt.Assert(ok, "a type conflict is reported as a partial write")
			vrt.Assert(pw.Dropped == 1, "the dropped count is the number of rejected points")
			vrt.Assert(len(e.stored) == before, "a point with a conflicting field type is never stored")
		} else {
			vrt.Assert(err == nil, "a write without conflict succeeds")
			vrt.Assert(len(e.stored) == before+1, "an accepted point is stored")
		}
		got := verifReadSchema(e.fs)
		for a := range got {
			for b := range got[a] {
				vrt.Assert(got[a][b] == model[a][b], "live: each field has the single type it was first accepted with")
			}
		}
	}

	switch vrt.Choose("shutdown", 0, 2) {
	case 0: // clean
		vrt.Assert(e.fs.Close() == nil, "clean close")
	case 1: // process dies
		vrt.Reach("unclean")
	case 2: // process dies while one more change record is being appended
		log := filepath.Join(dir, FieldsChangeFile)
		size := 0
		if st, err := os.Stat(log); err == nil {
			size = int(st.Size())
		}
		f := &Field{Name: "extra", Type: influxql.Float}
		_ = e.fs.Save(FieldChanges{{FieldCreate: FieldCreate{Measurement: []byte("cpu"), Field: f}, ChangeType: AddMeasurementField}})
		st, err := os.Stat(log)
		vrt.Assert(err == nil, "change log exists")
		// bytes of the unacknowledged record that reached the disk (relative, clamped: the native record
		// is real protobuf and has another length than the solver-side layout)
		rec := int(st.Size()) - size
		j := vrt.Choose("crash_cut_offset", 0, rec-1)
		if j > rec-1 {
			j = rec - 1
		}
		vrt.Assert(os.Truncate(log, int64(size+j)) == nil, "crash: truncate")
		vrt.Reach("torn change record")
	}

	_, e2 := verifOpenShard(dir)
	got := verifReadSchema(e2.fs)
	for a := range got {
		for b := range got[a] {
			vrt.Assert(got[a][b] == model[a][b], "after restart: the recorded field types are those acknowledged before the shutdown")
		}
	}
	vrt.Reach("end")
}
