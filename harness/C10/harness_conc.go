package tsdb

import (
	"context"
	"os"
	"path/filepath"

	vrt "github.com/influxdata/influxdb/v2/internal/zzverifrt"
	"github.com/influxdata/influxdb/v2/models"
	"github.com/influxdata/influxql"
)

// VerifC10_RacingWriters: W writers race through the real Shard.WritePoints on one measurement, each with
// one point carrying field "value" (symbolic type) — and, for writer 0, a second new field "a" written
// before it. Every schedule with up to PREEMPT pre-emptions at the mutex / atomic / sync.Map operations
// of packages tsdb and gensyncmap is explored. Afterwards the field has exactly one type, the type of an
// accepted writer; a writer is accepted iff its type is that type; a refused writer got a partial-write
// error with Dropped == 1 and its point was not handed to the engine; the reopened field index records
// the same single type.
func VerifC10_RacingWriters() {
	W := vrt.Bound("W", 2)
	dir := filepath.Join(vrt.FSRoot(), "shard")
	vrt.Assert(os.MkdirAll(dir, 0o777) == nil, "mkdir")
	s, e := verifOpenShard(dir)
	pts := make([]*verifPoint, W)
	errs := make([]error, W)
	done := make([]bool, W)
	for w := 0; w < W; w++ {
		w := w
		t := models.FieldType(vrt.Int(vrt.N("type", w)))
		vrt.Assume(t >= models.Integer && t <= models.Unsigned)
		vrt.Assume(t != models.Empty)
		p := &verifPoint{name: "cpu"}
		if w == 0 && vrt.Choose("extra_field", 0, 1) == 1 {
			p.fields = append(p.fields, verifField{key: "a", typ: models.Float})
		}
		p.fields = append(p.fields, verifField{key: "value", typ: t})
		pts[w] = p
		vrt.Go(func() {
			errs[w] = s.WritePoints(context.Background(), []models.Point{p})
			done[w] = true
		})
	}
	vrt.Join()

	mf := e.fs.Fields([]byte("cpu"))
	vrt.Assert(mf != nil, "the measurement has a field set")
	fld := mf.Field("value")
	vrt.Assert(fld != nil, "the contested field exists")
	T := fld.Type
	anyAccepted := false
	for w := 0; w < W; w++ {
		vrt.Assert(done[w], "writer finished")
		typ := pts[w].fields[len(pts[w].fields)-1].typ
		dt := dataTypeFromModelsFieldType(typ)
		stored := false
		for _, sp := range e.stored {
			if sp == pts[w] {
				stored = true
			}
		}
		if dt == T {
			anyAccepted = true
			vrt.Assert(errs[w] == nil, "a writer whose type is the field's type is accepted")
			vrt.Assert(stored, "an accepted point is handed to the engine")
		} else {
			vrt.Reach("conflict")
			pw, ok := errs[w].(PartialWriteError)
			vrt.Assert(ok, "a type conflict is reported as a partial write")
			vrt.Assert(pw.Dropped == 1, "the dropped count is the number of rejected points")
			vrt.Assert(!stored, "a point with a conflicting field type is never stored")
		}
	}
	vrt.Assert(anyAccepted, "the field's type is the type of an accepted writer")
	for _, sp := range e.stored {
		typ := sp.fields[len(sp.fields)-1].typ
		vrt.Assert(dataTypeFromModelsFieldType(typ) == T, "every stored point carries the field's single type")
	}

	// restart
	if vrt.Choose("clean_close", 0, 1) == 1 {
		vrt.Assert(e.fs.Close() == nil, "clean close")
	}
	_, e2 := verifOpenShard(dir)
	var T2 influxql.DataType
	if mf2 := e2.fs.Fields([]byte("cpu")); mf2 != nil {
		if f2 := mf2.Field("value"); f2 != nil {
			T2 = f2.Type
		}
	}
	vrt.Assert(T2 == T, "after restart the field has the same single type")
	vrt.Reach("end")
}
