package tsm1

import (
	"fmt"
	"time"

	vrt "github.com/influxdata/influxdb/v2/internal/zzverifrt"
)

type verifPlanFS struct{}

func (verifPlanFS) Stats() []ExtFileStat                    { return nil }
func (verifPlanFS) LastModified() time.Time                 { return time.Unix(100, 0) }
func (verifPlanFS) ParseFileName(string) (int, int, error)  { return 0, 0, nil }
func (verifPlanFS) NextGeneration() int                     { return 1000 }
func (verifPlanFS) TSMReader(string) (*TSMReader, error)    { return nil, nil }
func (verifPlanFS) SupportsCompactionPlanning() bool        { return true }

// verifGenerations: G generations in generation order, each with 1..NF files; level (sequence), size,
// first-block point count and tombstone flag of every file are symbolic. held[i] says whether the
// generation is held by a running compaction (all of its files, as every planner entry point books
// whole generations).
func verifGenerations(G, NF int) (gens TsmGenerations, genOf map[string]int, held []bool, p *DefaultPlanner) {
	p = &DefaultPlanner{FileStore: verifPlanFS{}, filesInUse: map[string]struct{}{}, aggressiveCompactionPointsPerBlock: 100000}
	genOf = map[string]int{}
	for i := 0; i < G; i++ {
		g := newTsmGeneration(i + 1)
		seq := vrt.Int(vrt.N("seq", i))
		vrt.Assume(seq >= 1)
		vrt.Assume(seq <= 5)
		nf := vrt.Choose(vrt.N("files", i), 1, NF)
		inUse := vrt.Choose(vrt.N("held", i), 0, 1) == 1
		for k := 0; k < nf; k++ {
			path := fmt.Sprintf("%09d-%09d.tsm", i+1, k+1)
			fbc := vrt.Int(vrt.N("firstBlockCount", i, k))
			vrt.Assume(fbc >= 0)
			vrt.Assume(fbc <= 100000)
			st := ExtFileStat{FileStat: FileStat{Path: path, Generation: i + 1, Sequence: seq,
				Size: vrt.Uint32(vrt.N("size", i, k)), HasTombstone: vrt.Bool(vrt.N("tomb", i, k))}, FirstBlockCount: fbc}
			g.files = append(g.files, st)
			genOf[path] = i
			if inUse {
				p.filesInUse[path] = struct{}{}
			}
		}
		gens = append(gens, g)
		held = append(held, inUse)
	}
	return
}

// verifCheckGroups: every handed-out group is made of generations that were free, no generation is in
// two groups, the generations of a group are contiguous in generation order, and the group is booked.
func verifCheckGroups(groups []CompactionGroup, G int, genOf map[string]int, held []bool, p *DefaultPlanner, label string) {
	taken := make([]int, G)
	for gi, grp := range groups {
		lo, hi := G, -1
		in := make([]bool, G)
		for _, f := range grp {
			g, ok := genOf[f]
			vrt.Assert(ok, label+": group names a known file")
			vrt.Assert(!held[g], label+": a handed-out group does not contain a generation held by a running compaction")
			vrt.Assert(taken[g] == 0 || taken[g] == gi+1, label+": handed-out groups are pairwise disjoint")
			taken[g] = gi + 1
			in[g] = true
			if g < lo {
				lo = g
			}
			if g > hi {
				hi = g
			}
			_, booked := p.filesInUse[f]
			vrt.Assert(booked, label+": handed-out files are booked as in use")
		}
		for g := lo; g <= hi; g++ {
			if held[g] {
				vrt.Assert(in[g], label+": the generations of a group are contiguous in generation order (group spans a generation held by a running compaction)")
			} else {
				vrt.Assert(in[g], label+": the generations of a group are contiguous in generation order (group skips a free generation)")
			}
		}
		if len(grp) > 0 {
			vrt.Reach("group")
		}
	}
}

// VerifC05_PlanLevel: PlanLevel(level) for an arbitrary level from an arbitrary file-store/in-use state.
func VerifC05_PlanLevel() {
	G := vrt.Bound("G", 5)
	gens, genOf, held, p := verifGenerations(G, vrt.Bound("NF", 1))
	level := vrt.Choose("level", 1, 4)
	groups, _ := p.PlanLevel(gens, level)
	verifCheckGroups(groups, G, genOf, held, p, "PlanLevel")
	vrt.Reach("end")
}

// VerifC05_PlanOptimize: PlanOptimize from an arbitrary state (cold shard).
func VerifC05_PlanOptimize() {
	G := vrt.Bound("G", 5)
	gens, genOf, held, p := verifGenerations(G, vrt.Bound("NF", 1))
	groups, _, _ := p.PlanOptimize(gens, time.Unix(0, 0))
	verifCheckGroups(groups, G, genOf, held, p, "PlanOptimize")
	vrt.Reach("end")
}

// VerifC05_Plan: the level-4 planner Plan on a warm shard (not forced, not cold).
func VerifC05_Plan() {
	G := vrt.Bound("G", 5)
	gens, genOf, held, p := verifGenerations(G, vrt.Bound("NF", 1))
	p.compactFullWriteColdDuration = time.Hour
	groups, _ := p.Plan(gens, time.Now().Add(24*time.Hour))
	verifCheckGroups(groups, G, genOf, held, p, "Plan")
	vrt.Reach("end")
}

// VerifC05_PlanFull: Plan's full-compaction branch (ForceFull, or a shard cold for longer than
// compactFullWriteColdDuration).
func VerifC05_PlanFull() {
	G := vrt.Bound("G", 3)
	gens, genOf, held, p := verifGenerations(G, vrt.Bound("NF", 1))
	p.compactFullWriteColdDuration = time.Hour
	if vrt.Choose("forced", 0, 1) == 1 {
		p.ForceFull()
	}
	groups, _ := p.Plan(gens, time.Unix(0, 0))
	verifCheckGroups(groups, G, genOf, held, p, "Plan(full)")
	vrt.Reach("end")
}
