package tsm1

import (
	"time"

	vrt "github.com/influxdata/influxdb/v2/internal/zzverifrt"
)

// VerifC05_ConcurrentPlans: two compaction goroutines plan at the same time from one arbitrary
// file-store / in-use state (as the engine's level compactors do): one calls PlanLevel(level), the other
// PlanLevel(another level), PlanOptimize or Plan. Every schedule with up to PREEMPT pre-emptions at the
// planner's mutex operations is explored. No file is handed out twice, no held generation is handed out,
// and everything handed out is booked.
func VerifC05_ConcurrentPlans() {
	G := vrt.Bound("G", 4)
	gens, genOf, held, p := verifGenerations(G, 1)
	p.compactFullWriteColdDuration = time.Hour
	// the schedule is the subject here: sizes, block counts and tombstone flags are fixed (they are
	// symbolic in the sequential entries); levels and held generations stay arbitrary
	for _, g := range gens {
		for _, f := range g.files {
			vrt.Assume(f.Size == 1024)
			vrt.Assume(f.FirstBlockCount == 1000)
			vrt.Assume(!f.HasTombstone)
		}
	}
	la := vrt.Choose("level_a", 1, 4)
	kind := vrt.Choose("kind_b", 0, 2)
	lb := vrt.Choose("level_b", 1, 4)
	var ga, gb []CompactionGroup
	vrt.Go(func() { ga, _ = p.PlanLevel(gens, la) })
	vrt.Go(func() {
		switch kind {
		case 0:
			gb, _ = p.PlanLevel(gens, lb)
		case 1:
			gb, _, _ = p.PlanOptimize(gens, time.Unix(0, 0))
		default:
			gb, _ = p.Plan(gens, time.Now().Add(24*time.Hour))
		}
	})
	vrt.Join()
	owner := map[string]int{}
	for who, groups := range [][]CompactionGroup{ga, gb} {
		for gi, grp := range groups {
			for _, f := range grp {
				g, ok := genOf[f]
				vrt.Assert(ok, "group names a known file")
				vrt.Assert(!held[g], "a handed-out group does not contain a generation held by a running compaction")
				id := who*100 + gi + 1
				prev, seen := owner[f]
				vrt.Assert(!seen || prev == id, "no file is handed out to two compactions")
				owner[f] = id
				_, booked := p.filesInUse[f]
				vrt.Assert(booked, "handed-out files are booked as in use")
			}
			if len(grp) > 0 {
				vrt.Reach("group")
			}
		}
	}
	vrt.Reach("end")
}
