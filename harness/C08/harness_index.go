package tsm1

import (
	"bufio"
	"bytes"
	"math"

	vrt "github.com/influxdata/influxdb/v2/internal/zzverifrt"
)

// ---- I/O stand-ins ---------------------------------------------------------------------------

// anonymous mmap of the offsets table
func verifMmap(f interface{ Fd() uintptr }, offset int64, length int) ([]byte, error) {
	return make([]byte, length), nil
}

// the tombstone file: an append-only list of (key, min, max) records with a pending batch. Encoding,
// gzip and the tmp+rename commit of tombstone.go are file-system work outside the solver's reach.
var verifTombPending, verifTombFile []Tombstone

func verifTombAddRange(t *Tombstoner, keys [][]byte, min, max int64) error {
	for _, k := range keys {
		verifTombPending = append(verifTombPending, Tombstone{Key: append([]byte(nil), k...), Min: min, Max: max})
	}
	return nil
}
func verifTombFlush(t *Tombstoner) error {
	verifTombFile = append(verifTombFile, verifTombPending...)
	verifTombPending = nil
	return nil
}
func verifTombRollback(t *Tombstoner) error { verifTombPending = nil; return nil }
func verifTombWalk(t *Tombstoner, fn func(t Tombstone) error) error {
	for _, ts := range verifTombFile {
		if err := fn(ts); err != nil {
			return err
		}
	}
	return nil
}

// ---- content ---------------------------------------------------------------------------------

var verifKeyPool = []string{"a", "a,t=1#!~#v", "b\\ c#!~#v", "cpu", "cpu#!~#value"}
var verifProbeKeys = []string{"", "a", "a,t=1#!~#v", "b", "b\\ c#!~#v", "cpu", "cpu#!~#val", "cpu#!~#value", "zz"}

type verifIdxKey struct {
	key     string
	typ     byte
	entries []IndexEntry
}

// verifIndexContent: a subset of the key pool (sorted), each key with 1..E entries whose time ranges
// are ascending and disjoint; times, offsets, sizes and block types symbolic.
func verifIndexContent(K, E, pool int) []verifIdxKey {
	var ks []verifIdxKey
	for p := 0; p < pool && len(ks) < K; p++ {
		if pool-p > K-len(ks) && vrt.Choose(vrt.N("skipkey", p), 0, 1) == 1 {
			continue
		}
		k := verifIdxKey{key: verifKeyPool[p], typ: vrt.Byte(vrt.N("type", p))}
		vrt.Assume(k.typ <= 4)
		n := vrt.Choose(vrt.N("entries", p), 1, E)
		for e := 0; e < n; e++ {
			ie := IndexEntry{MinTime: vrt.Int64(vrt.N("min", p, e)), MaxTime: vrt.Int64(vrt.N("max", p, e)),
				Offset: vrt.Int64(vrt.N("ofs", p, e)), Size: vrt.Uint32(vrt.N("size", p, e))}
			if vrt.Bound("FIXED_TIMES", 0) == 1 {
				// quick tier of the tombstone entry: fixed block time ranges, symbolic deletes
				ie.MinTime, ie.MaxTime = int64(10+5*p+100*e), int64(20+10*p+100*e)
			}
			vrt.Assume(ie.MinTime <= ie.MaxTime)
			if e > 0 {
				vrt.Assume(k.entries[e-1].MaxTime < ie.MinTime)
			}
			k.entries = append(k.entries, ie)
		}
		ks = append(ks, k)
	}
	return ks
}

// verifBuildIndex: the real directIndex (index writer) marshalled and loaded by the real indirectIndex.
func verifBuildIndex(ks []verifIdxKey) (*indirectIndex, []byte) {
	buf := bytes.NewBuffer(nil)
	w := &directIndex{buf: buf, w: bufio.NewWriterSize(buf, 64)}
	for _, k := range ks {
		for _, e := range k.entries {
			w.Add([]byte(k.key), k.typ, e.MinTime, e.MaxTime, e.Offset, e.Size)
		}
	}
	b, err := w.MarshalBinary()
	vrt.Assert(err == nil, "index writer: marshal succeeds")
	idx := NewIndirectIndex()
	vrt.Assert(idx.UnmarshalBinary(b) == nil, "index reader: unmarshal succeeds")
	return idx, b
}

func verifEntryContains(k *verifIdxKey, t int64) bool {
	c := false
	for _, e := range k.entries {
		c = vrt.Or(c, vrt.And(e.MinTime <= t, t <= e.MaxTime))
	}
	return c
}

// VerifC08_IndexRoundTrip: every lookup of the loaded index agrees with what was written.
func VerifC08_IndexRoundTrip() {
	K, E := vrt.Bound("K", 2), vrt.Bound("E", 2)
	ks := verifIndexContent(K, E, len(verifKeyPool))
	idx, _ := verifBuildIndex(ks)

	vrt.Assert(idx.KeyCount() == len(ks), "KeyCount equals the number of keys written")
	minT, maxT := int64(math.MaxInt64), int64(math.MinInt64)
	for i := range ks {
		k := &ks[i]
		key, typ := idx.KeyAt(i)
		vrt.Assert(string(key) == k.key, "KeyAt returns the i-th key")
		vrt.Assert(typ == k.typ, "KeyAt returns the block type written")
		key2, typ2, ents := idx.Key(i, nil)
		vrt.Assert(string(key2) == k.key && typ2 == k.typ, "Key returns the i-th key and type")
		got := idx.Entries([]byte(k.key))
		vrt.Assert(len(got) == len(k.entries) && len(ents) == len(k.entries), "Entries returns as many index entries as written")
		for e := range k.entries {
			if e < len(got) && e < len(ents) {
				vrt.Assert(vrt.And(got[e].MinTime == k.entries[e].MinTime, got[e].MaxTime == k.entries[e].MaxTime,
					got[e].Offset == k.entries[e].Offset, got[e].Size == k.entries[e].Size), "Entries returns the index entries written")
				vrt.Assert(vrt.And(ents[e].MinTime == k.entries[e].MinTime, ents[e].MaxTime == k.entries[e].MaxTime,
					ents[e].Offset == k.entries[e].Offset, ents[e].Size == k.entries[e].Size), "Key returns the index entries written")
			}
			minT = vrt.Ite(k.entries[e].MinTime < minT, k.entries[e].MinTime, minT)
			maxT = vrt.Ite(k.entries[e].MaxTime > maxT, k.entries[e].MaxTime, maxT)
		}
		ty, err := idx.Type([]byte(k.key))
		vrt.Assert(err == nil && ty == k.typ, "Type returns the block type written")
	}
	lo, hi := idx.TimeRange()
	vrt.Assert(lo == minT, "TimeRange: minimum equals the smallest entry MinTime")
	vrt.Assert(hi == maxT, "TimeRange: maximum equals the largest entry MaxTime")
	kmin, kmax := idx.KeyRange()
	vrt.Assert(string(kmin) == ks[0].key && string(kmax) == ks[len(ks)-1].key, "KeyRange is first and last key")

	t := vrt.Int64("probe_t")
	for _, p := range verifProbeKeys {
		// reference
		var at *verifIdxKey
		seek := len(ks)
		for i := len(ks) - 1; i >= 0; i-- {
			if ks[i].key >= p {
				seek = i
			}
			if ks[i].key == p {
				at = &ks[i]
			}
		}
		// Seek: "the position in the index where key <= value in the index": the first key >= probe
		// when there is one; otherwise any position (callers compare the keys from there on), and
		// no key before the returned position is >= probe.
		got := idx.Seek([]byte(p))
		if seek < len(ks) {
			vrt.Assert(got == seek, "Seek returns the position of the first key >= probe (probe \""+p+"\")")
		} else {
			vrt.Assert(got >= 0 && got <= len(ks), "Seek of a probe beyond the last key stays within the index")
		}
		vrt.Assert(idx.Contains([]byte(p)) == (at != nil), "Contains agrees with the keys written")
		if at == nil {
			vrt.Assert(len(idx.Entries([]byte(p))) == 0, "Entries of an absent key is empty")
			vrt.Assert(!idx.ContainsValue([]byte(p), t), "ContainsValue of an absent key is false")
			_, err := idx.Type([]byte(p))
			vrt.Assert(err != nil, "Type of an absent key fails")
		} else {
			vrt.Assert(idx.ContainsValue([]byte(p), t) == verifEntryContains(at, t), "ContainsValue agrees with the entry time ranges")
			e := idx.Entry([]byte(p), t)
			vrt.Assert((e != nil) == verifEntryContains(at, t), "Entry finds the block holding a timestamp iff one exists")
		}
	}
	vrt.Reach("end")
}

// what a reader sees of (key, t): the key is present, an index entry spans t and no tombstone range of
// the key covers t (KeyCursor and ContainsValue both consult TombstoneRange).
func verifVisible(idx *indirectIndex, key string, t int64) bool {
	if !idx.Contains([]byte(key)) {
		return false
	}
	if idx.Entry([]byte(key), t) == nil {
		return false
	}
	v := true
	for _, tr := range idx.TombstoneRange([]byte(key)) {
		v = vrt.And(v, vrt.Not(vrt.And(tr.Min <= t, t <= tr.Max)))
	}
	vrt.Assert(idx.ContainsValue([]byte(key), t) == v, "ContainsValue agrees with TombstoneRange")
	return v
}

// VerifC08_Tombstones: D range deletes (each over a chosen subset of keys, symbolic range) through
// TSMReader.DeleteRange / BatchDelete on a loaded index; a point is visible afterwards iff it was
// written and no recorded delete covers it, and loading the file again (fresh index + applyTombstones
// over the persisted tombstone records) gives the same answer.
func VerifC08_Tombstones() {
	K, E, D := vrt.Bound("K", 2), vrt.Bound("E", 1), vrt.Bound("D", 2)
	ks := verifIndexContent(K, E, K) // the first K keys of the pool
	idx, raw := verifBuildIndex(ks)
	verifTombPending, verifTombFile = nil, nil
	r := &TSMReader{index: idx, tombstoner: &Tombstoner{}}

	type del struct {
		keys     []string
		min, max int64
	}
	var dels []del
	oneBatch := vrt.Choose("one_batch", 0, 1) == 1
	var batch BatchDeleter
	if oneBatch {
		batch = r.BatchDelete()
	}
	for d := 0; d < D; d++ {
		dl := del{min: vrt.Int64(vrt.N("dmin", d)), max: vrt.Int64(vrt.N("dmax", d))}
		if d == 0 && vrt.Choose(vrt.N("dall", d), 0, 1) == 1 {
			dl.min, dl.max = math.MinInt64, math.MaxInt64
		}
		var keys [][]byte
		for i := range ks {
			if vrt.Choose(vrt.N("dkey", d, i), 0, 1) == 1 {
				dl.keys = append(dl.keys, ks[i].key)
				keys = append(keys, []byte(ks[i].key))
			}
		}
		if len(keys) == 0 {
			vrt.Assume(false) // a delete names at least one key
		}
		var err error
		if oneBatch {
			err = batch.DeleteRange(keys, dl.min, dl.max)
		} else {
			err = r.DeleteRange(keys, dl.min, dl.max)
		}
		vrt.Assert(err == nil, "DeleteRange succeeds")
		dels = append(dels, dl)
	}
	if oneBatch {
		vrt.Assert(batch.Commit() == nil, "Commit succeeds")
	}

	// reopen: a fresh index over the same bytes, tombstones re-applied from the persisted records
	idx2 := NewIndirectIndex()
	vrt.Assert(idx2.UnmarshalBinary(raw) == nil, "reopen: unmarshal succeeds")
	r2 := &TSMReader{index: idx2, tombstoner: &Tombstoner{}}
	vrt.Assert(r2.applyTombstones() == nil, "reopen: applyTombstones succeeds")

	t := vrt.Int64("probe_t")
	for i := range ks {
		k := &ks[i]
		deleted := false
		for _, dl := range dels {
			for _, dk := range dl.keys {
				if dk == k.key {
					deleted = vrt.Or(deleted, vrt.And(dl.min <= t, t <= dl.max))
				}
			}
		}
		want := vrt.And(verifEntryContains(k, t), vrt.Not(deleted))
		vrt.Assert(verifVisible(idx, k.key, t) == want, "after delete: a point is hidden iff a recorded key/time range covers it")
		vrt.Assert(verifVisible(idx2, k.key, t) == want, "after reopen: a point is hidden iff a recorded key/time range covers it")
	}
	vrt.Reach("end")
}
