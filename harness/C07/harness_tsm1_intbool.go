package tsm1

import (
	vrt "github.com/influxdata/influxdb/v2/internal/zzverifrt"
)

func verifInts(n int) []int64 {
	vs := make([]int64, n)
	for i := range vs {
		vs[i] = vrt.Int64(vrt.N("v", i))
	}
	return vs
}

func verifDecodeIntScalar(b []byte, max int) ([]int64, error) {
	var d IntegerDecoder
	d.SetBytes(b)
	var out []int64
	for i := 0; i < max && d.Next(); i++ {
		out = append(out, d.Read())
	}
	return out, d.Error()
}

// VerifC07_IntegerBatchRoundTrip: IntegerArrayEncodeAll -> IntegerArrayDecodeAll and -> the scalar
// IntegerDecoder both return the identical values (uncompressed, simple8b and RLE forms).
func VerifC07_IntegerBatchRoundTrip() {
	n := vrt.Choose("n", 1, vrt.Bound("N", 3))
	orig := verifInts(n)
	b, err := IntegerArrayEncodeAll(append([]int64(nil), orig...), nil)
	vrt.Assert(err == nil, "integer batch: encode accepted")
	if err != nil {
		return
	}
	got, err := IntegerArrayDecodeAll(b, nil)
	vrt.Assert(err == nil && len(got) == n, "integer batch: decode returns n values")
	if len(got) == n {
		for i := range orig {
			vrt.Assert(got[i] == orig[i], "integer batch: value")
		}
	}
	got2, err := verifDecodeIntScalar(b, n+1)
	vrt.Assert(err == nil && len(got2) == n, "integer batch bytes, scalar decoder: returns n values")
	if len(got2) == n {
		for i := range orig {
			vrt.Assert(got2[i] == orig[i], "integer batch bytes, scalar decoder: value")
		}
	}
	vrt.Reach("end")
}

// VerifC07_IntegerScalarRoundTrip: the scalar IntegerEncoder's bytes decode to the identical values with
// both decoders.
func VerifC07_IntegerScalarRoundTrip() {
	n := vrt.Choose("n", 1, vrt.Bound("N", 3))
	orig := verifInts(n)
	e := NewIntegerEncoder(n)
	for _, v := range orig {
		e.Write(v)
	}
	b, err := e.Bytes()
	vrt.Assert(err == nil, "integer scalar: encode accepted")
	if err != nil {
		return
	}
	got, err := verifDecodeIntScalar(b, n+1)
	vrt.Assert(err == nil && len(got) == n, "integer scalar: decode returns n values")
	if len(got) == n {
		for i := range orig {
			vrt.Assert(got[i] == orig[i], "integer scalar: value")
		}
	}
	got2, err := IntegerArrayDecodeAll(b, nil)
	vrt.Assert(err == nil && len(got2) == n, "integer scalar bytes, batch decoder: returns n values")
	if len(got2) == n {
		for i := range orig {
			vrt.Assert(got2[i] == orig[i], "integer scalar bytes, batch decoder: value")
		}
	}
	vrt.Reach("end")
}

// VerifC07_UnsignedBatchRoundTrip: UnsignedArrayEncodeAll -> UnsignedArrayDecodeAll.
func VerifC07_UnsignedBatchRoundTrip() {
	n := vrt.Choose("n", 1, vrt.Bound("N", 3))
	orig := make([]uint64, n)
	for i := range orig {
		orig[i] = vrt.Uint64(vrt.N("v", i))
	}
	b, err := UnsignedArrayEncodeAll(append([]uint64(nil), orig...), nil)
	vrt.Assert(err == nil, "unsigned batch: encode accepted")
	if err != nil {
		return
	}
	got, err := UnsignedArrayDecodeAll(b, nil)
	vrt.Assert(err == nil && len(got) == n, "unsigned batch: decode returns n values")
	if len(got) == n {
		for i := range orig {
			vrt.Assert(got[i] == orig[i], "unsigned batch: value")
		}
	}
	vrt.Reach("end")
}

// VerifC07_BooleanRoundTrip: batch and scalar boolean encoders emit bytes that both decoders turn back
// into the identical values.
func VerifC07_BooleanRoundTrip() {
	n := vrt.Choose("n", 1, vrt.Bound("N", 9))
	orig := make([]bool, n)
	for i := range orig {
		orig[i] = vrt.Bool(vrt.N("b", i))
	}
	bb, err := BooleanArrayEncodeAll(orig, nil)
	vrt.Assert(err == nil, "boolean batch: encode accepted")
	e := NewBooleanEncoder(n)
	for _, v := range orig {
		e.Write(v)
	}
	sb, err2 := e.Bytes()
	vrt.Assert(err2 == nil, "boolean scalar: encode accepted")
	if err != nil || err2 != nil {
		return
	}
	for _, enc := range [][]byte{bb, sb} {
		got, err := BooleanArrayDecodeAll(enc, nil)
		vrt.Assert(err == nil && len(got) == n, "boolean: batch decoder returns n values")
		if len(got) == n {
			for i := range orig {
				vrt.Assert(got[i] == orig[i], "boolean: batch decoder value")
			}
		}
		var d BooleanDecoder
		d.SetBytes(enc)
		for i := range orig {
			vrt.Assert(d.Next(), "boolean: scalar decoder has n values")
			vrt.Assert(d.Read() == orig[i], "boolean: scalar decoder value")
		}
		vrt.Assert(!d.Next(), "boolean: scalar decoder stops after n values")
		vrt.Assert(d.Error() == nil, "boolean: scalar decoder no error")
	}
	vrt.Reach("end")
}
