package simple8b

import (
	"encoding/binary"

	vrt "github.com/influxdata/influxdb/v2/internal/zzverifrt"
)

func verifVals(name string, n int, bounded bool) []uint64 {
	v := make([]uint64, n)
	for i := range v {
		v[i] = vrt.Uint64(vrt.N(name, i))
		if bounded {
			vrt.Assume(v[i] <= MaxValue)
		}
	}
	return v
}

// VerifC07_S8bRoundTrip: EncodeAll then DecodeAll / DecodeBytesBigEndian / Decoder return the identical values;
// CountBytes agrees. All values up to MaxValue (2^60-1), n <= N.
func VerifC07_S8bRoundTrip() {
	n := vrt.Choose("n", 0, vrt.Bound("N", 3))
	orig := verifVals("v", n, true)
	src := append([]uint64(nil), orig...)
	enc, err := EncodeAll(src)
	vrt.Assert(err == nil, "encodeall: packable values accepted")
	if err != nil {
		return
	}
	// room for a full word's worth of outputs, as the decoders require
	dst := make([]uint64, n+240)
	cnt, err := DecodeAll(dst, enc)
	vrt.Assert(err == nil && cnt == n, "decodeall: count")
	if cnt == n {
		for i := 0; i < n; i++ {
			vrt.Assert(dst[i] == orig[i], "decodeall: value")
		}
	}
	// byte form
	b := make([]byte, 8*len(enc))
	for i, w := range enc {
		binary.BigEndian.PutUint64(b[8*i:], w)
	}
	c2, err := CountBytes(b)
	vrt.Assert(err == nil && c2 == n, "countbytes: count")
	dst2 := make([]uint64, n+240)
	c3, err := DecodeBytesBigEndian(dst2, b)
	vrt.Assert(err == nil && c3 == n, "decodebytes: count")
	if c3 == n {
		for i := 0; i < n; i++ {
			vrt.Assert(dst2[i] == orig[i], "decodebytes: value")
		}
	}
	vrt.Reach("end")
}

// VerifC07_S8bReject: a value above MaxValue is rejected by EncodeAll (never mis-packed).
func VerifC07_S8bReject() {
	n := vrt.Choose("n", 1, vrt.Bound("N", 3))
	src := verifVals("v", n, false)
	anyBig := vrt.Any(n, func(i int) bool { return src[i] > MaxValue })
	vrt.Assume(anyBig)
	_, err := EncodeAll(src)
	vrt.Assert(err != nil, "encodeall: out-of-range value rejected")
	vrt.Reach("end")
}

// VerifC07_S8bScalarEncoder: the streaming Encoder/Decoder pair round-trips and its bytes decode with the batch decoder.
func VerifC07_S8bScalarEncoder() {
	n := vrt.Choose("n", 0, vrt.Bound("N", 3))
	orig := verifVals("v", n, true)
	e := NewEncoder()
	for _, v := range orig {
		err := e.Write(v)
		vrt.Assert(err == nil, "encoder: write accepted")
	}
	b, err := e.Bytes()
	vrt.Assert(err == nil, "encoder: bytes")
	if err != nil {
		return
	}
	d := NewDecoder(b)
	i := 0
	for d.Next() {
		vrt.Assert(i < n, "decoder: no extra values")
		if i < n {
			vrt.Assert(d.Read() == orig[i], "decoder: value")
		}
		i++
	}
	vrt.Assert(i == n, "decoder: count")
	dst := make([]uint64, n+240)
	c, err := DecodeBytesBigEndian(dst, b)
	vrt.Assert(err == nil && c == n, "scalar->batch: count")
	if c == n {
		for k := 0; k < n; k++ {
			vrt.Assert(dst[k] == orig[k], "scalar->batch: value")
		}
	}
	vrt.Reach("end")
}
