package tsm1

import (
	vrt "github.com/influxdata/influxdb/v2/internal/zzverifrt"
)

// non-decreasing timestamps ("values to be encoded should be sorted"), first one arbitrary,
// successive differences below 2^DB bits (bound of this harness, stated in the evidence)
func verifTimes(n int) []int64 {
	ts := make([]int64, n)
	db := uint(vrt.Bound("DB", 62))
	for i := range ts {
		ts[i] = vrt.Int64(vrt.N("t", i))
		if i > 0 {
			vrt.Assume(ts[i-1] <= ts[i])
			vrt.Assume(uint64(ts[i]-ts[i-1]) < uint64(1)<<db)
		}
	}
	return ts
}

// VerifC07_TimeBatchRoundTrip: TimeArrayEncodeAll -> TimeArrayDecodeAll returns the identical timestamps.
func VerifC07_TimeBatchRoundTrip() {
	n := vrt.Choose("n", 0, vrt.Bound("N", 3))
	orig := verifTimes(n)
	src := append([]int64(nil), orig...)
	b, err := TimeArrayEncodeAll(src, nil)
	vrt.Assert(err == nil, "time batch: encode accepted")
	if err != nil {
		return
	}
	got, err := TimeArrayDecodeAll(b, nil)
	vrt.Assert(err == nil, "time batch: decode accepted")
	vrt.Assert(len(got) == n, "time batch: count")
	if len(got) == n {
		for i := range orig {
			vrt.Assert(got[i] == orig[i], "time batch: value")
		}
	}
	vrt.Reach("end")
}

// VerifC07_TimeScalarBatch: the scalar encoder's bytes decode with the batch decoder and vice versa,
// with the same result, and both encoders emit the same bytes.
func VerifC07_TimeScalarBatch() {
	n := vrt.Choose("n", 1, vrt.Bound("N", 3))
	orig := verifTimes(n)
	e := NewTimeEncoder(n)
	for _, t := range orig {
		e.Write(t)
	}
	sb, err := e.Bytes()
	vrt.Assert(err == nil, "time scalar: encode accepted")
	if err != nil {
		return
	}
	bb, err := TimeArrayEncodeAll(append([]int64(nil), orig...), nil)
	vrt.Assert(err == nil, "time batch: encode accepted")
	if err != nil {
		return
	}
	vrt.Assert(len(sb) == len(bb), "time: scalar and batch encodings have the same length")
	if len(sb) == len(bb) {
		vrt.Assert(vrt.All(len(sb), func(i int) bool { return sb[i] == bb[i] }), "time: scalar and batch encodings are byte-identical")
	}
	// scalar bytes -> batch decoder
	got, err := TimeArrayDecodeAll(sb, nil)
	vrt.Assert(err == nil && len(got) == n, "time scalar->batch: count")
	if len(got) == n {
		for i := range orig {
			vrt.Assert(got[i] == orig[i], "time scalar->batch: value")
		}
	}
	// batch bytes -> scalar decoder
	var d TimeDecoder
	d.Init(bb)
	i := 0
	for d.Next() {
		vrt.Assert(i < n, "time batch->scalar: no extra values")
		if i < n {
			vrt.Assert(d.Read() == orig[i], "time batch->scalar: value")
		}
		i++
	}
	vrt.Assert(d.Error() == nil && i == n, "time batch->scalar: count")
	vrt.Reach("end")
}
