package tsm1

import (
	"encoding/binary"

	"github.com/influxdata/influxdb/v2/pkg/encoding/simple8b"
)

// Transparent stand-ins for the repo's simple8b word packer (one value per word). Used only by the
// entries that run in integer arithmetic, where the timestamp/integer codecs' own logic (delta,
// divisor search, RLE, zig-zag, framing) is the subject; the packer itself is decided separately in
// bit-vector arithmetic by the VerifC07_S8b* entries ("assumes simple8b", compositional).
func verifS8bEncodeAll(src []uint64) ([]uint64, error) {
	for _, v := range src {
		if v > simple8b.MaxValue {
			return nil, simple8b.ErrValueOutOfBounds
		}
	}
	return src, nil
}

func verifS8bCountBytes(b []byte) (int, error) { return len(b) / 8, nil }

func verifS8bDecodeBytes(dst []uint64, src []byte) (int, error) {
	n := 0
	for i := 0; i+8 <= len(src); i += 8 {
		dst[n] = binary.BigEndian.Uint64(src[i:])
		n++
	}
	return n, nil
}

func verifS8bDecode(dst *[240]uint64, v uint64) (int, error) {
	dst[0] = v
	return 1, nil
}
