package tsm1

import (
	"math"

	vrt "github.com/influxdata/influxdb/v2/internal/zzverifrt"
)

// VerifC07_FloatBatchRoundTrip: FloatArrayEncodeAll -> FloatArrayDecodeAll returns bit-identical values
// (NaN is the codec's end marker and is rejected by the encoder; every other bit pattern, including
// infinities, negative zero and subnormals, round-trips). Beyond N=1 the XOR/leading/trailing-zero bit
// packing makes bit positions symbolic and the exploration does not finish (see DESIGN.md 11.6).
func VerifC07_FloatBatchRoundTrip() {
	n := vrt.Choose("n", 1, vrt.Bound("N", 1))
	orig := make([]float64, n)
	for i := range orig {
		orig[i] = vrt.Float64(vrt.N("f", i))
	}
	anyNaN := false
	for _, f := range orig {
		anyNaN = vrt.Or(anyNaN, math.IsNaN(f))
	}
	b, err := FloatArrayEncodeAll(append([]float64(nil), orig...), nil)
	if anyNaN {
		vrt.Assert(err != nil, "float batch: NaN is rejected, never stored as the end marker")
		return
	}
	vrt.Assert(err == nil, "float batch: encode accepted")
	if err != nil {
		return
	}
	got, err := FloatArrayDecodeAll(b, nil)
	vrt.Assert(err == nil && len(got) == n, "float batch: decode returns n values")
	if len(got) == n {
		for i := range orig {
			vrt.Assert(math.Float64bits(got[i]) == math.Float64bits(orig[i]), "float batch: identical bits")
		}
	}
	vrt.Reach("end")
}

// VerifC07_FloatPair: two values per block where the second has the first one's bits or the first one's
// bits with the sign flipped (+0/-0, x/-x): the XOR of neighbours is then 0 or the sign bit alone, so
// the bit layout stays concrete while the first value is arbitrary. Scalar encoder and batch encoder emit
// the same bytes, and both decoders return both values bit-exactly.
func VerifC07_FloatPair() {
	f0 := vrt.Float64("f0")
	vrt.Assume(!math.IsNaN(f0))
	b1 := math.Float64bits(f0)
	if vrt.Choose("second_sign_flipped", 0, 1) == 1 {
		b1 ^= 1 << 63
	}
	orig := []float64{f0, math.Float64frombits(b1)}
	e := NewFloatEncoder()
	for _, v := range orig {
		e.Write(v)
	}
	e.Flush()
	sb, err := e.Bytes()
	vrt.Assert(err == nil, "float scalar: encode accepted")
	bb, err2 := FloatArrayEncodeAll(append([]float64(nil), orig...), nil)
	vrt.Assert(err2 == nil, "float batch: encode accepted")
	if err != nil || err2 != nil {
		return
	}
	vrt.Assert(len(sb) == len(bb), "float: scalar and batch encoders emit the same number of bytes")
	if len(sb) == len(bb) {
		for i := range sb {
			vrt.Assert(sb[i] == bb[i], "float: scalar and batch encoders emit the same bytes")
		}
	}
	for _, enc := range [][]byte{sb, bb} {
		got, err := FloatArrayDecodeAll(enc, nil)
		vrt.Assert(err == nil && len(got) == 2, "float: batch decoder returns both values")
		if len(got) == 2 {
			for i := range orig {
				vrt.Assert(math.Float64bits(got[i]) == math.Float64bits(orig[i]), "float: batch decoder bit-exact")
			}
		}
		var d FloatDecoder
		vrt.Assert(d.SetBytes(enc) == nil, "float: scalar decoder accepts the block")
		for i := range orig {
			vrt.Assert(d.Next(), "float: scalar decoder has both values")
			vrt.Assert(math.Float64bits(d.Values()) == math.Float64bits(orig[i]), "float: scalar decoder bit-exact")
		}
		vrt.Assert(!d.Next(), "float: scalar decoder stops after the last value")
		vrt.Assert(d.Error() == nil, "float: scalar decoder reports no error")
	}
	vrt.Reach("end")
}

// VerifC07_FloatSpecials: three values per block, each one of +0, -0, +Inf, -Inf (sign and "infinite" are
// symbolic bits; the XOR of neighbours is then confined to the sign and exponent bits, which keeps the bit
// layout to a handful of cases). None of them is NaN, so the batch encoder must accept the block exactly
// as the scalar encoder does, and both decoders return the three values bit-exactly.
func VerifC07_FloatSpecials() {
	orig := make([]float64, 3)
	for i := range orig {
		s := uint64(vrt.Byte(vrt.N("sign", i)))
		inf := uint64(vrt.Byte(vrt.N("inf", i)))
		vrt.Assume(vrt.And(s <= 1, inf <= 1))
		orig[i] = math.Float64frombits(s<<63 | inf*0x7FF0000000000000)
	}
	e := NewFloatEncoder()
	for _, v := range orig {
		e.Write(v)
	}
	e.Flush()
	_, serr := e.Bytes()
	vrt.Assert(serr == nil, "float specials: scalar encoder accepts a block of zeros and infinities")
	b, err := FloatArrayEncodeAll(append([]float64(nil), orig...), nil)
	vrt.Assert(err == nil, "float specials: batch encoder accepts a block of zeros and infinities (no NaN in the input)")
	if err != nil {
		return
	}
	got, err := FloatArrayDecodeAll(b, nil)
	vrt.Assert(err == nil && len(got) == 3, "float specials: batch decode returns 3 values")
	if len(got) == 3 {
		for i := range orig {
			vrt.Assert(math.Float64bits(got[i]) == math.Float64bits(orig[i]), "float specials: identical bits")
		}
	}
	vrt.Reach("end")
}
