package tsm1

import (
	"math"

	vrt "github.com/influxdata/influxdb/v2/internal/zzverifrt"
)

// VerifC07_FloatBatchRoundTrip: FloatArrayEncodeAll -> FloatArrayDecodeAll returns bit-identical values
// (NaN is the codec's end marker and is rejected by the encoder; every other bit pattern, including
// infinities, negative zero and subnormals, round-trips). Beyond N=1 the XOR/leading/trailing-zero bit
// packing makes bit positions symbolic and the exploration does not finish (see DESIGN.md 11.6).
func VerifC07_FloatBatchRoundTrip() {
	n := vrt.Choose("n", 1, vrt.Bound("N", 1))
	orig := make([]float64, n)
	for i := range orig {
		orig[i] = vrt.Float64(vrt.N("f", i))
	}
	anyNaN := false
	for _, f := range orig {
		anyNaN = vrt.Or(anyNaN, math.IsNaN(f))
	}
	b, err := FloatArrayEncodeAll(append([]float64(nil), orig...), nil)
	if anyNaN {
		vrt.Assert(err != nil, "float batch: NaN is rejected, never stored as the end marker")
		return
	}
	vrt.Assert(err == nil, "float batch: encode accepted")
	if err != nil {
		return
	}
	got, err := FloatArrayDecodeAll(b, nil)
	vrt.Assert(err == nil && len(got) == n, "float batch: decode returns n values")
	if len(got) == n {
		for i := range orig {
			vrt.Assert(math.Float64bits(got[i]) == math.Float64bits(orig[i]), "float batch: identical bits")
		}
	}
	vrt.Reach("end")
}
