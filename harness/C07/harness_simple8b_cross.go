package simple8b

import (
	vrt "github.com/influxdata/influxdb/v2/internal/zzverifrt"
	jw "github.com/jwilder/encoding/simple8b"
)

// VerifC07_S8bCrossCompat: the scalar value encoders of tsm1 pack with github.com/jwilder/encoding/simple8b
// while the batch encoders use this package; a block written by one is read by the other. Words packed by
// either library decode to the identical values with the other.
func VerifC07_S8bCrossCompat() {
	n := vrt.Choose("n", 1, vrt.Bound("N", 3))
	orig := verifVals("v", n, true)
	enc, err := EncodeAll(append([]uint64(nil), orig...))
	vrt.Assert(err == nil, "repo EncodeAll accepts")
	if err == nil {
		var got []uint64
		for _, w := range enc {
			var buf [240]uint64
			k, err := jw.Decode(&buf, w)
			vrt.Assert(err == nil, "jwilder Decode accepts a word packed by the repo encoder")
			got = append(got, buf[:k]...)
		}
		vrt.Assert(len(got) == n, "repo->jwilder: count")
		if len(got) == n {
			for i := range orig {
				vrt.Assert(got[i] == orig[i], "repo->jwilder: value")
			}
		}
	}
	enc2, err := jw.EncodeAll(append([]uint64(nil), orig...))
	vrt.Assert(err == nil, "jwilder EncodeAll accepts")
	if err == nil {
		dst := make([]uint64, n+240)
		cnt, err := DecodeAll(dst, enc2)
		vrt.Assert(err == nil && cnt == n, "jwilder->repo: count")
		if cnt == n {
			for i := range orig {
				vrt.Assert(dst[i] == orig[i], "jwilder->repo: value")
			}
		}
	}
	vrt.Reach("end")
}
