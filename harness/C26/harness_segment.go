package durablequeue

import (
	"bytes"
	"errors"
	"io"
	"os"

	vrt "github.com/influxdata/influxdb/v2/internal/zzverifrt"
)

// ---- in-memory file model standing in for *os.File (the stated environment model: a file is a
// byte slice plus a position; a crash leaves a prefix of the last write on top of the old bytes)
type verifFile struct {
	data []byte
	pos  int64
}

var verifFiles = map[*os.File]*verifFile{}

func verifNewFile(data []byte) *os.File {
	f := new(os.File)
	verifFiles[f] = &verifFile{data: data}
	return f
}

func verifSeek(f *os.File, off int64, whence int) (int64, error) {
	m := verifFiles[f]
	var np int64
	switch whence {
	case io.SeekStart:
		np = off
	case io.SeekCurrent:
		np = m.pos + off
	default:
		np = int64(len(m.data)) + off
	}
	// overflow of pos+off is reported like a negative position (EINVAL)
	if np < 0 || (whence == io.SeekCurrent && off > 0 && np < m.pos) {
		return 0, errors.New("seek: invalid argument")
	}
	m.pos = np
	return np, nil
}

func verifRead(f *os.File, b []byte) (int, error) {
	m := verifFiles[f]
	if len(b) == 0 {
		return 0, nil
	}
	if m.pos >= int64(len(m.data)) {
		return 0, io.EOF
	}
	p := vrt.Concrete(int(m.pos))
	n := copy(b, m.data[p:])
	m.pos = int64(p + n)
	return n, nil
}

func verifWrite(f *os.File, b []byte) (int, error) {
	m := verifFiles[f]
	p := vrt.Concrete(int(m.pos))
	for len(m.data) < p+len(b) {
		m.data = append(m.data, 0)
	}
	copy(m.data[p:], b)
	m.pos = int64(p + len(b))
	return len(b), nil
}

func verifTruncate(f *os.File, size int64) error {
	m := verifFiles[f]
	n := vrt.Concrete(int(size))
	if n < 0 {
		return errors.New("truncate: invalid argument")
	}
	for len(m.data) < n {
		m.data = append(m.data, 0)
	}
	m.data = m.data[:n]
	return nil
}

func verifSync(f *os.File) error  { return nil }
func verifClose(f *os.File) error { return nil }
func verifName(f *os.File) string { return "1" }

func verifOpenSegment(data []byte) (*segment, error) {
	s := &segment{id: 1, file: verifNewFile(data), path: "1", size: int64(len(data)), maxSize: 1 << 20,
		verifyBlockFn: func([]byte) error { return nil }}
	if s.maxSize < s.size {
		s.maxSize = s.size
	}
	s.mu.Lock()
	err := s.open()
	s.mu.Unlock()
	return s, err
}

func verifDrain(s *segment, max int) [][]byte {
	var out [][]byte
	for i := 0; i < max; i++ {
		b, err := s.current()
		if err != nil {
			break
		}
		out = append(out, b)
		if err := s.advance(); err != nil {
			break
		}
	}
	return out
}

// VerifC26_TornAppend: K entries are appended (the real append builds the file image), A of them are
// advanced past, then one more append is cut after an arbitrary number of bytes (the rest of the file
// keeps its old content). Reopening must succeed and deliver, in order, every entry that was appended and
// not advanced past — optionally followed by the torn entry if it was written completely — and
// nothing else.
func VerifC26_TornAppend() {
	K := vrt.Choose("appended", 0, vrt.Bound("K", 2))
	s, err := verifOpenSegment(nil)
	vrt.Assert(err == nil, "open: empty file")
	var scratch bytes.Buffer
	entries := make([][]byte, K+1)
	for i := 0; i <= K; i++ {
		n := vrt.Choose(vrt.N("len", i), 1, vrt.Bound("L", 2))
		entries[i] = vrt.Bytes(vrt.N("e", i), n)
	}
	for i := 0; i < K; i++ {
		_, err := s.append(entries[i], &scratch)
		vrt.Assert(err == nil, "append: succeeds")
	}
	A := vrt.Choose("advanced", 0, K)
	for i := 0; i < A; i++ {
		s.advance()
	}
	m := verifFiles[s.file]
	old := append([]byte(nil), m.data...)
	// the last append, executed for real, gives the bytes of the single write it performs
	_, err = s.append(entries[K], &scratch)
	vrt.Assert(err == nil, "append: last one succeeds when not cut")
	full := append([]byte(nil), m.data...)
	off := len(old) - footerSize
	wlen := len(full) - off
	cut := vrt.Choose("cut", 0, wlen) // bytes of the write that reached the file
	img := append([]byte(nil), old...)
	for len(img) < off+cut {
		img = append(img, 0)
	}
	copy(img[off:], full[off:off+cut])
	r, err := verifOpenSegment(img)
	vrt.Assert(err == nil, "reopen: succeeds after a torn append")
	if err != nil {
		return
	}
	got := verifDrain(r, K+3)
	// acceptable outcomes: entries[from:K] or entries[from:K+1] (torn entry complete) for some from <= A
	// (re-delivery of already advanced entries is at-least-once; losing an un-advanced one is not)
	ok := false
	for from := 0; from <= A; from++ {
		for _, end := range []int{K, K + 1} {
			if end == K+1 && cut < wlen-footerSize {
				continue // the torn entry's body did not reach the file completely
			}
			if len(got) != end-from {
				continue
			}
			same := true
			for j := range got {
				if !bytes.Equal(got[j], entries[from+j]) {
					same = false
				}
			}
			if same {
				ok = true
			}
		}
	}
	vrt.Assert(ok, "reopen: delivers exactly the un-advanced entries in order (torn entry only if complete)")
	vrt.Reach("end")
}
