package durablequeue

import (
	"os"
	"path/filepath"

	vrt "github.com/influxdata/influxdb/v2/internal/zzverifrt"
)

func verifQOpen(dir string, segSize int64) *Queue {
	q, err := NewQueue(dir, 1<<20, segSize, &SharedCount{}, 8, func([]byte) error { return nil })
	vrt.Assert(err == nil, "queue: created")
	vrt.Assert(q.Open() == nil, "queue: opens")
	return q
}

// VerifC26_QueueHistory: a history of STEPS operations on a real Queue (directory of segment files in the
// in-memory file system, small segments so that the queue rolls over): append (symbolic payload), take
// the current entry and advance, scan a batch of up to two entries and advance the scanner, or close and
// reopen the queue. Entries come out in append order, each one that was advanced past is never delivered
// again by the live queue, nothing is lost across a reopen, and nothing that was not appended appears.
func VerifC26_QueueHistory() {
	STEPS := vrt.Bound("STEPS", 4)
	dir := filepath.Join(vrt.FSRoot(), "q")
	vrt.Assert(os.MkdirAll(dir, 0o777) == nil, "mkdir")
	segSize := int64(vrt.Bound("SEG", 32)) // footer 8 + per block 8 + payload
	q := verifQOpen(dir, segSize)
	var appended [][]byte
	consumed := 0 // entries advanced past
	for s := 0; s < STEPS; s++ {
		switch vrt.Choose(vrt.N("op", s), 0, 3) {
		case 0: // append
			n := vrt.Choose(vrt.N("len", s), 0, 2) // empty entries are legal: the scanner skips them
			b := vrt.Bytes(vrt.N("e", s), n)
			vrt.Assert(q.Append(b) == nil, "append succeeds")
			appended = append(appended, b)
		case 1: // current + advance
			b, err := q.Current()
			if consumed == len(appended) {
				vrt.Assert(err != nil, "an empty queue has no current entry")
				break
			}
			vrt.Assert(err == nil, "a non-empty queue has a current entry")
			vrt.Assert(string(b) == string(appended[consumed]), "Current is the oldest entry not advanced past")
			vrt.Assert(q.Advance() == nil, "advance succeeds")
			consumed++
		case 2: // scanner batch
			sc, err := q.NewScanner()
			if consumed == len(appended) {
				vrt.Assert(err != nil, "no scanner on an empty queue")
				break
			}
			vrt.Assert(err == nil, "scanner on a non-empty queue")
			// the scanner skips empty entries (they still count towards Advance) and delivers the rest
			k, read := 0, consumed
			for k < 2 && sc.Next() {
				if sc.Err() != nil {
					break
				}
				for read < len(appended) && len(appended[read]) == 0 {
					read++
				}
				vrt.Assert(read < len(appended), "the scanner delivers only appended entries")
				if read < len(appended) {
					vrt.Assert(string(sc.Bytes()) == string(appended[read]), "the scanner delivers the non-empty entries in append order")
					read++
				}
				k++
			}
			vrt.Assert(sc.Err() == nil, "scanning appended entries raises no error")
			if k < 2 {
				// Next returned false: everything up to the end was read (trailing empty entries too)
				for read < len(appended) && len(appended[read]) == 0 {
					read++
				}
				vrt.Assert(read == len(appended), "the scanner stops only at the end of the queue")
			}
			if read > consumed {
				_, err := sc.Advance()
				vrt.Assert(err == nil, "scanner advance succeeds")
				consumed = read
			}
		case 3: // close and reopen
			vrt.Assert(q.Close() == nil, "close succeeds")
			q = verifQOpen(dir, segSize)
			vrt.Reach("reopen")
		}
	}
	// drain: exactly the entries not advanced past, in order
	for consumed < len(appended) {
		b, err := q.Current()
		vrt.Assert(err == nil, "drain: entry available")
		if err != nil {
			break
		}
		vrt.Assert(string(b) == string(appended[consumed]), "drain: entries in append order, none lost")
		vrt.Assert(q.Advance() == nil, "drain: advance")
		consumed++
	}
	_, err := q.Current()
	vrt.Assert(err != nil, "drain: nothing beyond what was appended")
	vrt.Reach("end")
}
