package tsdb

import (
	"regexp"
	"sort"

	vrt "github.com/influxdata/influxdb/v2/internal/zzverifrt"
	"github.com/influxdata/influxql"
)

// a tiny in-memory tag index for one measurement behind the tsdb.Index lookups IndexSet uses
type verifTSeries struct {
	id   uint64
	tags map[string]string
}

type verifTagIndex struct {
	Index
	series []verifTSeries // ascending id
	plain  bool           // hand out iterators without a SeriesIDSet
}

func (x *verifTagIndex) FieldSet() *MeasurementFieldSet {
	return &MeasurementFieldSet{fields: map[string]*MeasurementFields{}}
}
func (x *verifTagIndex) ids(pred func(s *verifTSeries) bool) SeriesIDIterator {
	var ids []uint64
	for i := range x.series {
		if pred(&x.series[i]) {
			ids = append(ids, x.series[i].id)
		}
	}
	if len(ids) == 0 {
		return nil
	}
	if x.plain {
		return &verifPlainIDs{ids: ids}
	}
	return NewSeriesIDSliceIterator(ids)
}

// an iterator without a SeriesIDSet: the combinators then merge-join the ID streams
type verifPlainIDs struct{ ids []uint64 }

func (it *verifPlainIDs) Close() error { return nil }
func (it *verifPlainIDs) Next() (SeriesIDElem, error) {
	if len(it.ids) == 0 {
		return SeriesIDElem{}, nil
	}
	id := it.ids[0]
	it.ids = it.ids[1:]
	return SeriesIDElem{SeriesID: id}, nil
}
func (x *verifTagIndex) MeasurementSeriesIDIterator(name []byte) (SeriesIDIterator, error) {
	return x.ids(func(*verifTSeries) bool { return true }), nil
}
func (x *verifTagIndex) TagKeySeriesIDIterator(name, key []byte) (SeriesIDIterator, error) {
	return x.ids(func(s *verifTSeries) bool { _, ok := s.tags[string(key)]; return ok }), nil
}
func (x *verifTagIndex) TagValueSeriesIDIterator(name, key, value []byte) (SeriesIDIterator, error) {
	return x.ids(func(s *verifTSeries) bool { v, ok := s.tags[string(key)]; return ok && v == string(value) }), nil
}
func (x *verifTagIndex) TagValueIterator(name, key []byte) (TagValueIterator, error) {
	seen := map[string]bool{}
	var vals []string
	for _, s := range x.series {
		if v, ok := s.tags[string(key)]; ok && !seen[v] {
			seen[v] = true
			vals = append(vals, v)
		}
	}
	if len(vals) == 0 {
		return nil, nil
	}
	sort.Strings(vals)
	var bs [][]byte
	for _, v := range vals {
		bs = append(bs, []byte(v))
	}
	return NewTagValueSliceIterator(bs), nil
}

// expression domain
type verifLeaf struct {
	key   string
	op    influxql.Token
	str   string
	regex string // non-empty: regex comparison
}

var verifKeys = []string{"host", "rack", "zone"} // zone is carried by no series
var verifStrs = []string{"a", ""}
var verifRegexes = []string{"a", "^$", ".*", "^(a|x)$"}

func verifChooseLeaf(tag string) verifLeaf {
	l := verifLeaf{key: verifKeys[vrt.Choose(tag+"_key", 0, len(verifKeys)-1)]}
	k := vrt.Choose(tag+"_cmp", 0, 2*(len(verifStrs)+len(verifRegexes))-1)
	neg := k%2 == 1
	k /= 2
	if k < len(verifStrs) {
		l.str, l.op = verifStrs[k], influxql.EQ
		if neg {
			l.op = influxql.NEQ
		}
	} else {
		l.regex, l.op = verifRegexes[k-len(verifStrs)], influxql.EQREGEX
		if neg {
			l.op = influxql.NEQREGEX
		}
	}
	return l
}

func (l verifLeaf) expr() influxql.Expr {
	if l.regex != "" {
		return &influxql.BinaryExpr{Op: l.op, LHS: &influxql.VarRef{Val: l.key}, RHS: &influxql.RegexLiteral{Val: regexp.MustCompile(l.regex)}}
	}
	return &influxql.BinaryExpr{Op: l.op, LHS: &influxql.VarRef{Val: l.key}, RHS: &influxql.StringLiteral{Val: l.str}}
}

// InfluxQL semantics with an absent tag comparing as ""
func (l verifLeaf) eval(tags map[string]string) bool {
	v := tags[l.key]
	switch l.op {
	case influxql.EQ:
		return v == l.str
	case influxql.NEQ:
		return v != l.str
	}
	var m bool
	switch l.regex {
	case "a":
		m = v == "a" // values are a, b, x or ""
	case "^$":
		m = v == ""
	case ".*":
		m = true
	case "^(a|x)$":
		m = v == "a" || v == "x"
	}
	if l.op == influxql.EQREGEX {
		return m
	}
	return !m
}

// VerifC15_TagExpr: every subset of six series (host in {absent,a,b} x rack in {absent,x}) with
// arbitrary ascending series IDs, every comparison leaf (and, with DEPTH=2, every AND/OR of two leaves,
// optionally parenthesised): the IDs selected by IndexSet.seriesByExprIterator are exactly those of
// the series whose tags satisfy the expression, ascending, each once.
func VerifC15_TagExpr() { verifC15(false) }

// VerifC15_TagExprPlain: the same with iterators that carry no SeriesIDSet and arbitrary ascending
// series IDs (the merge-join Intersect/Union/Difference/Merge iterators).
func VerifC15_TagExprPlain() { verifC15(true) }

func verifC15(plain bool) {
	depth := vrt.Bound("DEPTH", 1)
	x := &verifTagIndex{plain: plain}
	var prev uint64
	n := 0
	for _, h := range []string{"", "a", "b"} {
		for _, r := range []string{"", "x"} {
			present := vrt.Bound("ALL_SERIES", 0) == 1 || vrt.Choose(vrt.N("present", n), 0, 1) == 1
			n++
			if !present {
				continue
			}
			// VerifC15_TagExpr: the index hands out SeriesIDSet iterators (tsi1 does); the combinators then work on
			// 32-bit roaring bitmaps, which are run on concrete IDs. VerifC15_TagExprPlain: plain iterators with
			// arbitrary ascending IDs, combined by the merge-join iterators.
			id := uint64(n * 5)
			if x.plain {
				id = vrt.Uint64(vrt.N("id", n))
			}
			vrt.Assume(id > prev)
			prev = id
			tags := map[string]string{}
			if h != "" {
				tags["host"] = h
			}
			if r != "" {
				tags["rack"] = r
			}
			x.series = append(x.series, verifTSeries{id: id, tags: tags})
		}
	}
	is := IndexSet{Indexes: []Index{x}}
	l1 := verifChooseLeaf("l1")
	expr := l1.expr()
	eval := l1.eval
	if depth >= 2 {
		l2 := verifChooseLeaf("l2")
		and := vrt.Choose("and", 0, 1) == 1
		op := influxql.Token(influxql.OR)
		if and {
			op = influxql.AND
		}
		expr = &influxql.BinaryExpr{Op: op, LHS: &influxql.ParenExpr{Expr: l1.expr()}, RHS: l2.expr()}
		eval = func(t map[string]string) bool {
			if and {
				return l1.eval(t) && l2.eval(t)
			}
			return l1.eval(t) || l2.eval(t)
		}
	}
	itr, err := is.seriesByExprIterator([]byte("m"), expr)
	vrt.Assert(err == nil, "no error")
	var got []uint64
	if itr != nil {
		for i := 0; i < len(x.series)+1; i++ {
			e, err := itr.Next()
			vrt.Assert(err == nil, "no error from iterator")
			if e.SeriesID == 0 {
				break
			}
			vrt.Assert(e.Expr == nil, "tag-only expressions leave no residual filter")
			got = append(got, e.SeriesID)
		}
		itr.Close()
	}
	var want []uint64
	for _, s := range x.series {
		if eval(s.tags) {
			want = append(want, s.id)
		}
	}
	vrt.Assert(len(got) == len(want), "selects as many series as satisfy the expression")
	for i := range want {
		if i < len(got) {
			vrt.Assert(got[i] == want[i], "selects exactly the series whose tags satisfy the expression, in ID order")
		}
	}
	vrt.Reach("end")
}

// depth-2 variants (separate entry names so that evidence and bounds are reported per entry)
func VerifC15_TagExpr2()      { verifC15(false) }
func VerifC15_TagExprPlain2() { verifC15(true) }
