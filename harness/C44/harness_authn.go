package http

import (
	"context"
	"net/http"
	"net/url"
	"time"

	platform "github.com/influxdata/influxdb/v2"
	platcontext "github.com/influxdata/influxdb/v2/context"
	vrt "github.com/influxdata/influxdb/v2/internal/zzverifrt"
	platform2 "github.com/influxdata/influxdb/v2/kit/platform"
	errors2 "github.com/influxdata/influxdb/v2/kit/platform/errors"
	"github.com/influxdata/influxdb/v2/jsonweb"
	"github.com/influxdata/httprouter"
	"go.uber.org/zap"
)

type verifAuthz struct {
	platform.AuthorizationService
	auths []*platform.Authorization
}

func (s *verifAuthz) FindAuthorizationByToken(ctx context.Context, t string) (*platform.Authorization, error) {
	for _, a := range s.auths {
		if a.Token == t {
			return a, nil
		}
	}
	return nil, &errors2.Error{Code: errors2.ENotFound, Msg: "authorization not found"}
}

type verifSessions struct {
	platform.SessionService
	live    []*platform.Session // unexpired sessions (the store deletes expired ones on look-up)
	renewed int
}

func (s *verifSessions) FindSession(ctx context.Context, key string) (*platform.Session, error) {
	for _, x := range s.live {
		if x.Key == key {
			return x, nil
		}
	}
	return nil, &errors2.Error{Code: errors2.ENotFound, Msg: "session not found"}
}
func (s *verifSessions) RenewSession(ctx context.Context, x *platform.Session, newExp time.Time) error {
	return nil
}

type verifUsers struct {
	platform.UserService
	users map[platform2.ID]*platform.User
}

func (s *verifUsers) FindUserByID(ctx context.Context, id platform2.ID) (*platform.User, error) {
	if u, ok := s.users[id]; ok {
		return u, nil
	}
	return nil, &errors2.Error{Code: errors2.ENotFound, Msg: "user not found"}
}

type verifErrs struct{ code string }

func (e *verifErrs) HandleHTTPError(ctx context.Context, err error, w http.ResponseWriter) {
	e.code = errors2.ErrorCode(err)
}

type verifInner struct {
	reached bool
	auth    platform.Authorizer
}

func (h *verifInner) ServeHTTP(w http.ResponseWriter, r *http.Request) {
	h.reached = true
	h.auth, _ = platcontext.GetAuthorizer(r.Context())
}

type verifRW struct{ http.ResponseWriter }

// VerifC44_Authenticate: AuthenticationHandler.ServeHTTP for a request with an arbitrary Authorization
// header (absent, "Token <t>", "Bearer <t>" with symbolic t, or arbitrary bytes) and optionally a session
// cookie, against one stored token (symbolic string, active or inactive, owned by an active or inactive
// user) and one unexpired session (owned by an active or inactive user): the inner handler is reached only
// with the stored token or the live session, never for an inactive user, and a reached request carries an
// authorizer whose permissions are usable only if the token is active.
func VerifC44_Authenticate() {
	L := vrt.Bound("L", 2)
	stored := vrt.String("stored_token", L)
	for i := 0; i < len(stored); i++ {
		vrt.Assume(stored[i] != '.') // JWT-shaped tokens (three dot-separated parts) take the TokenParser path: outside
	}
	tokActive := vrt.Choose("token_active", 0, 1) == 1
	tokUserActive := vrt.Choose("token_user_active", 0, 1) == 1
	sessUserActive := vrt.Choose("session_user_active", 0, 1) == 1
	status := func(active bool) platform.Status {
		if active {
			return platform.Active
		}
		return platform.Inactive
	}
	authz := &verifAuthz{auths: []*platform.Authorization{{ID: 1, Token: stored, Status: status(tokActive), UserID: 10,
		Permissions: platform.OperPermissions()}}}
	sessions := &verifSessions{live: []*platform.Session{{ID: 2, Key: "sesskey", UserID: 20}}}
	users := &verifUsers{users: map[platform2.ID]*platform.User{
		10: {ID: 10, Name: "u", Status: status(tokUserActive)},
		20: {ID: 20, Name: "v", Status: status(sessUserActive)},
	}}
	errs := &verifErrs{}
	inner := &verifInner{}
	h := &AuthenticationHandler{HTTPErrorHandler: errs, log: zap.NewNop(), AuthorizationService: authz, SessionService: sessions,
		UserService: users, TokenParser: jsonweb.NewTokenParser(jsonweb.EmptyKeyStore), noAuthRouter: httprouter.New(),
		SessionRenewDisabled: true, Handler: inner}

	r := &http.Request{Method: "GET", URL: &url.URL{Path: "/api/v2/buckets"}, Header: http.Header{}}
	var probe string
	hasScheme := false
	switch vrt.Choose("authorization_header", 0, 3) {
	case 1:
		probe = vrt.String("probe_token", vrt.Choose("probe_len", 0, L))
		r.Header["Authorization"] = []string{"Token " + probe}
		hasScheme = true
	case 2:
		probe = vrt.String("probe_token", vrt.Choose("probe_len", 1, L))
		r.Header["Authorization"] = []string{"Bearer " + probe}
		hasScheme = true
	case 3:
		raw := vrt.String("raw_header", vrt.Choose("raw_len", 1, 7))
		r.Header["Authorization"] = []string{raw}
		for i := 0; i < len(raw); i++ {
			vrt.Assume(raw[i] < 0x80) // header values are ASCII
		}
		vrt.Assume(len(raw) < 6 || !(raw[0]|0x20 == 't' && raw[1]|0x20 == 'o' && raw[2]|0x20 == 'k' && raw[3]|0x20 == 'e' && raw[4]|0x20 == 'n' && raw[5] == ' '))
	}
	for i := 0; i < len(probe); i++ {
		vrt.Assume(probe[i] != '.')
	}
	cookie := vrt.Choose("session_cookie", 0, 2)
	switch cookie {
	case 1:
		r.Header["Cookie"] = []string{"influxdb-oss-session=sesskey"}
	case 2:
		r.Header["Cookie"] = []string{"influxdb-oss-session=other"}
	}
	r = r.WithContext(context.Background())
	h.ServeHTTP(verifRW{}, r)

	byToken := vrt.And(hasScheme, probe == stored, tokUserActive)
	bySession := !hasScheme && cookie == 1 && sessUserActive
	vrt.Assert(inner.reached == vrt.Or(byToken, bySession), "the request reaches the handler iff it carries the stored token or the live session, of an active user")
	if inner.reached {
		vrt.Assert(inner.auth != nil, "an authenticated request carries its authorizer")
		if hasScheme && inner.auth != nil {
			_, err := inner.auth.PermissionSet()
			vrt.Assert((err == nil) == tokActive, "the permissions of an authenticated token are usable only if the token is active")
		}
	} else {
		inactive := vrt.Or(vrt.And(hasScheme, probe == stored, !tokUserActive), !hasScheme && cookie == 1 && !sessUserActive)
		vrt.Assert(vrt.Implies(inactive, errs.code == errors2.EForbidden), "an inactive user's credentials are refused as forbidden")
		vrt.Assert(vrt.Implies(vrt.Not(inactive), errs.code == errors2.EUnauthorized), "anything else is refused as unauthorized")
	}
	vrt.Reach("end")
}
