package rhh

import (
	vrt "github.com/influxdata/influxdb/v2/internal/zzverifrt"
)

// verifHashKey replaces HashKey: the hash of each distinct key is an ARBITRARY positive value
// (collisions, equal home slots and wrap-around are all in scope). HashKey's contract: non-zero, non-negative.
func verifHashKey(key []byte) int64 {
	h := vrt.Int64("hash_" + string(key))
	vrt.Assume(h > 0)
	return h
}

func verifRand() float64 { return 1.0 } // never sample timings

var verifKeys = []string{"a", "b", "c", "d", "e", "f"}

// VerifC36_RHHPutGet: K distinct keys with arbitrary hashes into a capacity-4 map (grows to 8 past the
// load factor): every key is found with its latest value, an absent key is not found, Len and Keys agree.
func VerifC36_RHHPutGet() {
	K := vrt.Bound("K", 3)
	m := &HashMap{capacity: 4, loadFactor: 90, tracker: &rhhTracker{}}
	m.alloc()
	held := make([][]byte, K) // the caller keeps using its key slices after Put
	for i := 0; i < K; i++ {
		held[i] = []byte(verifKeys[i])
		m.Put(held[i], i+1)
	}
	for i := 0; i < K; i++ {
		vrt.Assert(string(held[i]) == verifKeys[i], "put: the caller's key slice is not modified")
		if iv, ok := m.Get(held[i]).(int); ok {
			vrt.Assert(iv == i+1, "get with the slice passed to Put: that key's value")
		} else {
			vrt.Assert(false, "get with the slice passed to Put: found")
		}
	}
	// overwrite the first key
	m.Put([]byte(verifKeys[0]), 1000)
	vrt.Assert(m.Len() == int64(K), "len: distinct keys")
	for i := 0; i < K; i++ {
		v := m.Get([]byte(verifKeys[i]))
		want := i + 1
		if i == 0 {
			want = 1000
		}
		iv, ok := v.(int)
		vrt.Assert(ok, "get: present key found")
		if ok {
			vrt.Assert(iv == want, "get: latest value")
		}
	}
	vrt.Assert(m.Get([]byte("zz")) == nil, "get: absent key not found")
	ks := m.Keys()
	vrt.Assert(len(ks) == K, "keys: count")
	if len(ks) == K {
		for i := 0; i < K; i++ {
			vrt.Assert(string(ks[i]) == verifKeys[i], "keys: sorted distinct keys")
		}
	}
	vrt.Reach("end")
}
