package bloom

import (
	vrt "github.com/influxdata/influxdb/v2/internal/zzverifrt"
)

// verifHash replaces (*Filter).hash: two arbitrary 64-bit hashes per distinct datum.
func verifHash(f *Filter, data []byte) [2]uint64 {
	return [2]uint64{vrt.Uint64("h1_" + string(data)), vrt.Uint64("h2_" + string(data))}
}

func verifFilter(name string, k uint64) *Filter {
	f := NewFilter(64, k)
	for i := range f.b {
		f.b[i] = vrt.Byte(vrt.N(name, i))
	}
	return f
}

// VerifC36_BloomNoFalseNegative: from an arbitrary 64-bit filter state and arbitrary hashes, an inserted
// datum is always contained afterwards, bits are only added, and Merge is the union (nothing contained
// in either operand is lost).
func VerifC36_BloomNoFalseNegative() {
	k := uint64(vrt.Choose("k", 1, vrt.Bound("KMAX", 3)))
	f := verifFilter("f", k)
	before := append([]byte(nil), f.b...)
	hadY := f.Contains([]byte("y"))
	f.Insert([]byte("x"))
	vrt.Assert(f.Contains([]byte("x")), "bloom: inserted datum is contained")
	for i := range before {
		vrt.Assert(f.b[i]&before[i] == before[i], "bloom: insert only adds bits")
	}
	if hadY {
		vrt.Assert(f.Contains([]byte("y")), "bloom: earlier datum still contained")
	}
	g := verifFilter("g", k)
	hadZ := g.Contains([]byte("z"))
	err := f.Merge(g)
	vrt.Assert(err == nil, "bloom: merge of equal-shaped filters succeeds")
	vrt.Assert(f.Contains([]byte("x")), "bloom: merge keeps own data")
	if hadZ {
		vrt.Assert(f.Contains([]byte("z")), "bloom: merge adds the other filter's data")
	}
	vrt.Reach("end")
}
