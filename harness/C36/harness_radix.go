package radix

import (
	"bytes"

	vrt "github.com/influxdata/influxdb/v2/internal/zzverifrt"
)

// symbolic key of length 1..L over a two-letter alphabet plus one separator-like byte
// (prefix relations, shared edges and splits are what matters; the alphabet is a stated bound)
func verifKey(name string, maxLen int) []byte {
	n := vrt.Choose(name+"_len", 1, maxLen)
	k := vrt.Bytes(name, n)
	for i := range k {
		vrt.Assume(vrt.Or(k[i] == 'a', k[i] == 'b', k[i] == ','))
	}
	return k
}

// VerifC36_RadixInsertGet: after inserting K keys (Insert is put-if-absent: an existing key keeps its first
// value and Insert returns (existing value, false) — pinned by the repo's TestInsert_Duplicate), Get agrees
// with an association-list model for every inserted key and for an arbitrary probe key; Len counts
// distinct keys; Insert reports overwrite correctly; Minimum/Maximum are the lexicographic extremes.
func VerifC36_RadixInsertGet() {
	K := vrt.Bound("K", 2)
	L := vrt.Bound("L", 2)
	t := New()
	keys := make([][]byte, K)
	vals := make([]int, K)
	for i := 0; i < K; i++ {
		keys[i] = verifKey(vrt.N("k", i), L)
		vals[i] = 100 + i
		// model: was this key present before?
		present := false
		old := 0
		for j := i - 1; j >= 0; j-- {
			if bytes.Equal(keys[j], keys[i]) {
				present = true
				old = vals[j] // ends with the FIRST insertion's value
			}
		}
		kcopy := append([]byte(nil), keys[i]...)
		got, updated := t.Insert(kcopy, vals[i])
		vrt.Assert(updated == !present, "insert: reports whether the key is new")
		if present {
			vrt.Assert(got == old, "insert: returns the value already stored for an existing key")
		} else {
			vrt.Assert(got == vals[i], "insert: returns the inserted value for a new key")
		}
	}
	// model lookup
	lookup := func(q []byte) (int, bool) {
		v, ok := 0, false
		for j := K - 1; j >= 0; j-- {
			if bytes.Equal(keys[j], q) {
				v, ok = vals[j], true // first insertion wins
			}
		}
		return v, ok
	}
	distinct := 0
	for i := 0; i < K; i++ {
		first := true
		for j := 0; j < i; j++ {
			if bytes.Equal(keys[j], keys[i]) {
				first = false
			}
		}
		if first {
			distinct++
		}
		wv, _ := lookup(keys[i])
		gv, gok := t.Get(keys[i])
		vrt.Assert(gok, "get: inserted key found")
		vrt.Assert(gv == wv, "get: inserted key has its first-inserted value")
	}
	vrt.Assert(t.Len() == distinct, "len: number of distinct keys")
	probe := verifKey("probe", L+1)
	wv, wok := lookup(probe)
	gv, gok := t.Get(probe)
	vrt.Assert(gok == wok, "get: probe presence agrees with the model")
	if gok && wok {
		vrt.Assert(gv == wv, "get: probe value agrees with the model")
	}
	// extremes
	mk, _, mok := t.Minimum()
	xk, _, xok := t.Maximum()
	vrt.Assert(mok && xok, "min/max: non-empty tree has extremes")
	for i := 0; i < K; i++ {
		vrt.Assert(bytes.Compare(mk, keys[i]) <= 0, "minimum: no key is smaller")
		vrt.Assert(bytes.Compare(xk, keys[i]) >= 0, "maximum: no key is larger")
	}
	vrt.Reach("end")
}

// VerifC36_RadixDeletePrefix: DeletePrefix(p) removes exactly the keys having prefix p.
func VerifC36_RadixDeletePrefix() {
	K := vrt.Bound("K", 2)
	L := vrt.Bound("L", 2)
	t := New()
	keys := make([][]byte, K)
	for i := 0; i < K; i++ {
		keys[i] = verifKey(vrt.N("k", i), L)
		for j := 0; j < i; j++ {
			vrt.Assume(!bytes.Equal(keys[j], keys[i]))
		}
		t.Insert(append([]byte(nil), keys[i]...), 100+i)
	}
	p := verifKey("p", L)
	want := 0
	for i := 0; i < K; i++ {
		if bytes.HasPrefix(keys[i], p) {
			want++
		}
	}
	n := t.DeletePrefix(p)
	vrt.Assert(n == want, "deleteprefix: count of removed keys")
	vrt.Assert(t.Len() == K-want, "deleteprefix: len")
	for i := 0; i < K; i++ {
		v, ok := t.Get(keys[i])
		if bytes.HasPrefix(keys[i], p) {
			vrt.Assert(!ok, "deleteprefix: key under the prefix is gone")
		} else {
			vrt.Assert(ok && v == 100+i, "deleteprefix: other keys untouched")
		}
	}
	vrt.Reach("end")
}

// VerifC36_RadixDeleteThenInsert: the tree left behind by DeletePrefix (node removal + mergeChild) is still a
// sorted map: after deleting a prefix and inserting one more arbitrary key, Get agrees with the model for
// every key ever used and for an arbitrary probe, Len is the model's size, and Minimum/Maximum are the
// extremes of the surviving keys.
func VerifC36_RadixDeleteThenInsert() {
	K := vrt.Bound("K", 2)
	L := vrt.Bound("L", 2)
	t := New()
	keys := make([][]byte, K+1)
	live := make([]bool, K+1)
	for i := 0; i < K; i++ {
		keys[i] = verifKey(vrt.N("k", i), L)
		for j := 0; j < i; j++ {
			vrt.Assume(!bytes.Equal(keys[j], keys[i]))
		}
		t.Insert(append([]byte(nil), keys[i]...), 100+i)
		live[i] = true
	}
	p := verifKey("p", L)
	t.DeletePrefix(p)
	size := 0
	for i := 0; i < K; i++ {
		if bytes.HasPrefix(keys[i], p) {
			live[i] = false
		} else {
			size++
		}
	}
	keys[K] = verifKey("extra", L)
	dup := -1
	for i := 0; i < K; i++ {
		if live[i] && bytes.Equal(keys[i], keys[K]) {
			dup = i
		}
	}
	got, updated := t.Insert(append([]byte(nil), keys[K]...), 100+K)
	vrt.Assert(updated == (dup < 0), "insert after deleteprefix: reports whether the key is new")
	if dup >= 0 {
		vrt.Assert(got == 100+dup, "insert after deleteprefix: existing key keeps its value")
	} else {
		vrt.Assert(got == 100+K, "insert after deleteprefix: new key stored")
		live[K] = true
		size++
	}
	vrt.Assert(t.Len() == size, "insert after deleteprefix: len")
	for i := 0; i <= K; i++ {
		v, ok := t.Get(keys[i])
		if live[i] {
			vrt.Assert(ok && v == 100+i, "insert after deleteprefix: live key found with its value")
		} else if i < K && !(live[K] && bytes.Equal(keys[i], keys[K])) && dup < 0 {
			vrt.Assert(!ok, "insert after deleteprefix: deleted key stays deleted")
		}
	}
	probe := verifKey("probe", L+1)
	wok := false
	for i := 0; i <= K; i++ {
		if live[i] && bytes.Equal(keys[i], probe) {
			wok = true
		}
	}
	_, gok := t.Get(probe)
	vrt.Assert(gok == wok, "insert after deleteprefix: probe presence agrees with the model")
	mk, _, mok := t.Minimum()
	xk, _, xok := t.Maximum()
	vrt.Assert(mok && xok, "insert after deleteprefix: non-empty tree has extremes")
	for i := 0; i <= K; i++ {
		if live[i] {
			vrt.Assert(bytes.Compare(mk, keys[i]) <= 0, "insert after deleteprefix: minimum")
			vrt.Assert(bytes.Compare(xk, keys[i]) >= 0, "insert after deleteprefix: maximum")
		}
	}
	vrt.Reach("end")
}
