package influxdb

import (
	vrt "github.com/influxdata/influxdb/v2/internal/zzverifrt"
	"github.com/influxdata/influxdb/v2/kit/platform"
)

// verifAction: guarded choice over every declared action plus one undeclared string.
func verifAction(name string) Action {
	switch vrt.Choose(name, 0, 2) {
	case 0:
		return ReadAction
	case 1:
		return WriteAction
	}
	return Action("undeclared")
}

// verifType: choice over every declared resource type (read from the tree) plus one undeclared string.
// mode "rel" picks relative to another type: same / a different declared one / instance / undeclared.
func verifType(name string) ResourceType {
	i := vrt.Choose(name, 0, len(AllResourceTypes))
	if i == len(AllResourceTypes) {
		return ResourceType("undeclared")
	}
	return AllResourceTypes[i]
}

func verifTypeRel(name string, other ResourceType) ResourceType {
	switch vrt.Choose(name, 0, 3) {
	case 0:
		return other
	case 1:
		if other == BucketsResourceType {
			return TasksResourceType
		}
		return BucketsResourceType
	case 2:
		return InstanceResourceType
	}
	return ResourceType("undeclared2")
}

func verifIDPtr(name string) *platform.ID {
	if vrt.Choose(name+"_nil", 0, 1) == 1 {
		return nil
	}
	id := platform.ID(vrt.Uint64(name))
	return &id
}

// the statement of C28, written out literally
func verifGrants(p, req Permission) bool {
	sameOrg := false
	if p.Resource.OrgID != nil && req.Resource.OrgID != nil {
		sameOrg = *p.Resource.OrgID == *req.Resource.OrgID
	}
	sameID := false
	if p.Resource.ID != nil && req.Resource.ID != nil {
		sameID = *p.Resource.ID == *req.Resource.ID
	}
	typeWide := p.Resource.OrgID == nil && p.Resource.ID == nil
	orgScoped := p.Resource.OrgID != nil && p.Resource.ID == nil
	scoped := vrt.Or(typeWide, vrt.And(orgScoped, sameOrg), vrt.And(p.Resource.ID != nil, sameID))
	return vrt.And(p.Action == req.Action,
		vrt.Or(p.Resource.Type == InstanceResourceType, vrt.And(p.Resource.Type == req.Resource.Type, scoped)))
}

func verifPerm(name string, full bool, rel ResourceType) Permission {
	var p Permission
	p.Action = verifAction(name + "_action")
	if full {
		p.Resource.Type = verifType(name + "_type")
	} else {
		p.Resource.Type = verifTypeRel(name+"_type", rel)
	}
	p.Resource.OrgID = verifIDPtr(name + "_org")
	p.Resource.ID = verifIDPtr(name + "_id")
	return p
}

// VerifC28_Matches: Matches(p, req) <=> the stated predicate, for every action, every declared resource
// type (plus undeclared), nil or arbitrary org / resource ids on both sides.
func VerifC28_Matches() {
	p := verifPerm("p", true, "")
	var req Permission
	if vrt.Bound("FULL", 0) == 1 {
		req = verifPerm("req", true, "")
	} else {
		req = verifPerm("req", false, p.Resource.Type)
	}
	got := p.Matches(req)
	want := verifGrants(p, req)
	vrt.Assert(got == want, "matches: equals the stated predicate")
	if p.Action != req.Action {
		vrt.Assert(!got, "matches: read never implies write")
	}
	vrt.Reach("end")
}

// VerifC28_Allowed: a permission set grants a request iff one of its members does.
func VerifC28_Allowed() {
	req := verifPerm("req", true, "")
	n := vrt.Choose("n", 0, vrt.Bound("NMAX", 2))
	ps := make([]Permission, n)
	want := false
	for i := 0; i < n; i++ {
		ps[i] = verifPerm(vrt.N("p", i), false, req.Resource.Type)
		want = vrt.Or(want, verifGrants(ps[i], req))
	}
	vrt.Assert(PermissionSet(ps).Allowed(req) == want, "allowed: some member grants")
	vrt.Assert(PermissionAllowed(req, ps) == want, "PermissionAllowed: some member grants")
	vrt.Reach("end")
}
