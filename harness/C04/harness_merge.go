package tsm1

import (
	"math"

	vrt "github.com/influxdata/influxdb/v2/internal/zzverifrt"
	"github.com/influxdata/influxdb/v2/tsdb"
)

// ---- transparent block codec: a block's bytes are a one-byte handle into this table. The real codecs
// are the subject of C07; here the merge logic around them is ("assumes C07").
var verifBlockTab []*tsdb.IntegerArray

func verifPutBlock(ts, vs []int64) []byte {
	a := &tsdb.IntegerArray{Timestamps: append([]int64(nil), ts...), Values: append([]int64(nil), vs...)}
	verifBlockTab = append(verifBlockTab, a)
	return []byte{byte(len(verifBlockTab) - 1)}
}

func verifDecodeIntegerArrayBlock(block []byte, a *tsdb.IntegerArray) error {
	src := verifBlockTab[block[0]]
	a.Timestamps = append(a.Timestamps[:0], src.Timestamps...)
	a.Values = append(a.Values[:0], src.Values...)
	return nil
}

func verifEncodeIntegerArrayBlock(a *tsdb.IntegerArray, b []byte) ([]byte, error) {
	if a.Len() == 0 {
		return nil, nil
	}
	return verifPutBlock(a.Timestamps, a.Values), nil
}

func verifBlockCount(block []byte) (int, error) { return verifBlockTab[block[0]].Len(), nil }

// VerifC04_MergeInteger: the compaction merge of the blocks of one key from F files (oldest first,
// B blocks x P points each, arbitrary timestamps/values, optional tombstones) emits blocks whose
// concatenation is exactly the live points, newest file winning on equal timestamps, in ascending
// order; emitted blocks are non-empty, ascending, non-overlapping, and hold at most `size` points
// unless they are input blocks passed through unchanged.
func VerifC04_MergeInteger() {
	verifBlockTab = nil
	F, B, P := vrt.Bound("F", 2), vrt.Bound("B", 1), vrt.Bound("P", 2)
	files := verifFiles(F, B, P, vrt.Bound("TOMBS", 0))
	size := vrt.Choose("size", 1, vrt.Bound("SIZE", 2))
	k := &tsmBatchKeyIterator{size: size, fast: vrt.Choose("fast", 0, 1) == 1, key: []byte("k"), typ: BlockInteger,
		mergedFloatValues: &tsdb.FloatArray{}, mergedIntegerValues: &tsdb.IntegerArray{}, mergedUnsignedValues: &tsdb.UnsignedArray{},
		mergedBooleanValues: &tsdb.BooleanArray{}, mergedStringValues: &tsdb.StringArray{}}
	nIn := 0
	for _, f := range files {
		for _, b := range f.blocks {
			k.blocks = append(k.blocks, &block{key: k.key, minTime: b[0][0], maxTime: b[0][len(b[0])-1], typ: BlockInteger,
				b: verifPutBlock(b[0], b[1]), tombstones: f.tombs, readMin: math.MaxInt64, readMax: math.MinInt64})
			nIn++
		}
	}
	var ts, vs []int64
	var outBlocks []*tsdb.IntegerArray
	for it := 0; it < 2*F*B*P+4; it++ {
		k.merge()
		vrt.Assert(len(k.errs) == 0, "merge: no error")
		for _, mb := range k.merged {
			a := verifBlockTab[mb.b[0]]
			vrt.Assert(a.Len() > 0, "merge: no empty output block")
			vrt.Assert(vrt.And(mb.minTime == a.Timestamps[0], mb.maxTime == a.Timestamps[a.Len()-1]), "merge: block min/max time match its content")
			passedThrough := int(mb.b[0]) < nIn
			if !passedThrough {
				vrt.Assert(a.Len() <= size, "merge: a re-encoded block holds at most size points")
			}
			outBlocks = append(outBlocks, a)
			ts = append(ts, a.Timestamps...)
			vs = append(vs, a.Values...)
		}
		k.merged = nil
		if len(k.blocks) == 0 && !k.hasMergedValues() {
			break
		}
	}
	vrt.Assert(len(k.blocks) == 0 && !k.hasMergedValues(), "merge: drains all input")
	ps := verifAllPoints(files)
	if vrt.Bound("TOMBS", 0) == 0 || true {
		verifCheckOutput(ps, func(int64) bool { return true }, ts, vs, true, "merge")
	}
	vrt.Reach("end")
}
