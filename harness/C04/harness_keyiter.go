package tsm1

import (
	vrt "github.com/influxdata/influxdb/v2/internal/zzverifrt"
	"github.com/influxdata/influxdb/v2/tsdb"
)

// fake index/accessor behind a real TSMReader: each file holds the keys "a" and "b", every key has
// B blocks of P points (handles into the transparent block table)
type verifIndex struct {
	TSMIndex
	keys   [][]byte
	blocks [][][2][]int64 // per key: blocks
	handle [][]byte       // per key, per block: handle byte
	tombs  [][]TimeRange  // per key
}

func (x *verifIndex) KeyCount() int { return len(x.keys) }
func (x *verifIndex) KeyAt(i int) ([]byte, byte) {
	if i < 0 || i >= len(x.keys) {
		return nil, 0
	}
	return x.keys[i], BlockInteger
}
func (x *verifIndex) Key(i int, entries *[]IndexEntry) ([]byte, byte, []IndexEntry) {
	if i < 0 || i >= len(x.keys) {
		return nil, 0, nil
	}
	var es []IndexEntry
	for bi, b := range x.blocks[i] {
		es = append(es, IndexEntry{MinTime: b[0][0], MaxTime: b[0][len(b[0])-1], Offset: int64(x.handle[i][bi]), Size: 16})
	}
	return x.keys[i], BlockInteger, es
}
func (x *verifIndex) TombstoneRange(key []byte) []TimeRange {
	for i, k := range x.keys {
		if string(k) == string(key) {
			return x.tombs[i]
		}
	}
	return nil
}

type verifAccessor struct{ blockAccessor }

func (verifAccessor) readBytes(e *IndexEntry, b []byte) (uint32, []byte, error) {
	return 0, []byte{byte(e.Offset)}, nil
}

// VerifC04_KeyIterator: the whole batch key iterator (buffering of a file's blocks per key, key
// selection, merge) over F files that each hold the keys "a" and "b" with B blocks of P points:
// for each key, the emitted blocks concatenate to exactly that key's live points, newest file winning,
// ascending; keys are emitted in order.
func VerifC04_KeyIterator() {
	verifBlockTab = nil
	F, B, P := vrt.Bound("F", 1), vrt.Bound("B", 2), vrt.Bound("P", 2)
	keys := [][]byte{[]byte("a"), []byte("b")}
	var readers []*TSMReader
	var names []string
	perKey := make([][]*verifTSM, len(keys)) // reference view: per key, one pseudo file per real file
	for fi := 0; fi < F; fi++ {
		x := &verifIndex{keys: keys}
		for ki := range keys {
			// reuse the file generator for one key of one file
			f := verifKeyBlocks(fi, ki, B, P)
			var hs []byte
			for _, b := range f.blocks {
				hs = append(hs, verifPutBlock(b[0], b[1])[0])
			}
			x.blocks = append(x.blocks, f.blocks)
			x.handle = append(x.handle, hs)
			x.tombs = append(x.tombs, f.tombs)
			perKey[ki] = append(perKey[ki], f)
		}
		readers = append(readers, &TSMReader{index: x, accessor: verifAccessor{}})
		names = append(names, vrt.N("file", fi))
	}
	size := vrt.Choose("size", 1, vrt.Bound("SIZE", 2))
	it, err := NewTSMBatchKeyIterator(size, vrt.Choose("fast", 0, 1) == 1, 10, make(chan struct{}), names, readers...)
	vrt.Assert(err == nil, "iterator: created")
	k := it.(*tsmBatchKeyIterator)
	out := map[string][2][]int64{}
	lastKey := ""
	for n := 0; n < 4*F*B*P+8 && k.Next(); n++ {
		key, minT, maxT, data, err := k.Read()
		vrt.Assert(err == nil, "iterator: read ok")
		a := verifBlockTab[data[0]]
		vrt.Assert(a.Len() > 0, "iterator: no empty block")
		vrt.Assert(vrt.And(minT == a.Timestamps[0], maxT == a.Timestamps[a.Len()-1]), "iterator: block min/max match content")
		vrt.Assert(string(key) >= lastKey, "iterator: keys in ascending order")
		lastKey = string(key)
		o := out[string(key)]
		o[0] = append(o[0], a.Timestamps...)
		o[1] = append(o[1], a.Values...)
		out[string(key)] = o
	}
	for ki, key := range keys {
		ps := verifAllPoints(perKey[ki])
		o := out[string(key)]
		verifCheckOutput(ps, func(int64) bool { return true }, o[0], o[1], true, "iterator key "+string(key))
	}
	vrt.Reach("end")
}

// blocks of one key in one file (names carry file and key index)
func verifKeyBlocks(fi, ki, B, P int) *verifTSM {
	f := &verifTSM{name: vrt.N("file", fi)}
	var prev int64
	first := true
	for bi := 0; bi < B; bi++ {
		ts := make([]int64, P)
		vs := make([]int64, P)
		for pi := 0; pi < P; pi++ {
			ts[pi] = vrt.Int64(vrt.N("t", fi, ki, bi, pi))
			vs[pi] = vrt.Int64(vrt.N("v", fi, ki, bi, pi))
			vrt.Assume(ts[pi] > -4611686018427387904)
			vrt.Assume(ts[pi] < 4611686018427387904)
			if !first {
				vrt.Assume(prev < ts[pi])
			}
			prev, first = ts[pi], false
		}
		f.blocks = append(f.blocks, [2][]int64{ts, vs})
	}
	return f
}

var _ = tsdb.DefaultMaxPointsPerBlock
