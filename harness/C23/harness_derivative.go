package query

import (
	"time"

	vrt "github.com/influxdata/influxdb/v2/internal/zzverifrt"
)

// VerifC23_IntegerDerivativeEmit: derivative / non_negative_derivative over a stream of integer points with
// strictly increasing times, emitting after every point: nothing for the first point; afterwards exactly
// one point at the current point's time, except that non_negative_derivative drops a point exactly when the
// value decreased (a zero rate is kept). The emitted float value (diff / (elapsed/interval)) is not
// asserted: the decision which points appear is integer, the quotient is floating point and stays
// outside the claim. Values are kept within ±2^62 so that curr-prev does not wrap.
func VerifC23_IntegerDerivativeEmit() {
	K := vrt.Choose("points", 2, vrt.Bound("K", 3))
	ps := verifIntegerPoints(K)
	for i := range ps {
		vrt.Assume(vrt.And(ps[i].Value > -(1<<62), ps[i].Value < (1<<62)))
	}
	nonNeg := vrt.Choose("non_negative", 0, 1) == 1
	r := NewIntegerDerivativeReducer(Interval{Duration: time.Second}, nonNeg, true)
	for i := 0; i < K; i++ {
		p := ps[i]
		r.AggregateInteger(&p)
		d := r.Emit()
		if i == 0 {
			vrt.Assert(len(d) == 0, "derivative: nothing for the first point")
			continue
		}
		if nonNeg && ps[i].Value < ps[i-1].Value {
			vrt.Assert(len(d) == 0, "non_negative_derivative: a decrease is dropped")
		} else {
			vrt.Assert(len(d) == 1, "derivative: one point per successive pair (a zero rate is kept)")
			if len(d) == 1 {
				vrt.Assert(d[0].Time == ps[i].Time, "derivative: emitted at the current point's time")
			}
		}
	}
	vrt.Reach("end")
}

// VerifC23_UnsignedDerivativeEmit: the same for unsigned values (the reducer computes the difference of
// a decrease as -(prev-curr)).
func VerifC23_UnsignedDerivativeEmit() {
	K := vrt.Choose("points", 2, vrt.Bound("K", 3))
	ps := verifUnsignedPoints(K)
	nonNeg := vrt.Choose("non_negative", 0, 1) == 1
	r := NewUnsignedDerivativeReducer(Interval{Duration: time.Second}, nonNeg, true)
	for i := 0; i < K; i++ {
		p := ps[i]
		r.AggregateUnsigned(&p)
		d := r.Emit()
		if i == 0 {
			vrt.Assert(len(d) == 0, "derivative: nothing for the first point")
			continue
		}
		if nonNeg && ps[i].Value < ps[i-1].Value {
			vrt.Assert(len(d) == 0, "non_negative_derivative: a decrease is dropped")
		} else {
			vrt.Assert(len(d) == 1, "derivative: one point per successive pair (a zero rate is kept)")
			if len(d) == 1 {
				vrt.Assert(d[0].Time == ps[i].Time, "derivative: emitted at the current point's time")
			}
		}
	}
	vrt.Reach("end")
}
