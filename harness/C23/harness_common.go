package query

// "negative difference" as the reducers see it: signed values compare the wrapped difference with 0,
// unsigned values compare the operands.
func verifIntegerNeg(cur, prev int64) bool    { return cur-prev < 0 }
func verifUnsignedNeg(cur, prev uint64) bool { return cur < prev }
