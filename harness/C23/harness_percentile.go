package query

import (
	vrt "github.com/influxdata/influxdb/v2/internal/zzverifrt"
)

var verifPercentiles = []int{0, 5, 10, 25, 45, 50, 65, 75, 85, 90, 100}

// nearest rank with halves rounded up: rank = floor(N*p/100 + 1/2), in integer arithmetic
func verifRank(n, p int) int { return (2*n*p + 100) / 200 }

// VerifC23_IntegerPercentile: percentile(x, p) over a window of N points with symbolic values and times
// returns the point of nearest rank floor(N*p/100 + 0.5) in value order (no row for rank 0), for every N
// up to K and p from a list that includes every half-way case.
func VerifC23_IntegerPercentile() {
	n := vrt.Choose("n", 1, vrt.Bound("K", 5))
	p := verifPercentiles[vrt.Choose("p", 0, len(verifPercentiles)-1)]
	pts := make([]IntegerPoint, n)
	for i := range pts {
		pts[i] = IntegerPoint{Time: vrt.Int64(vrt.N("t", i)), Value: vrt.Int64(vrt.N("v", i))}
	}
	in := append([]IntegerPoint(nil), pts...)
	out := NewIntegerPercentileReduceSliceFunc(float64(p))(in)
	rank := verifRank(n, p)
	if rank < 1 || rank > n {
		vrt.Assert(len(out) == 0, "percentile: no row when the rank falls outside the window")
		vrt.Reach("end")
		return
	}
	vrt.Assert(len(out) == 1, "percentile: one row")
	if len(out) == 1 {
		r := out[0]
		vrt.Assert(vrt.Any(n, func(i int) bool { return vrt.And(pts[i].Time == r.Time, pts[i].Value == r.Value) }), "percentile: the row is one of the window's points")
		below, notAbove := 0, 0
		for i := range pts {
			below += vrt.Ite(pts[i].Value < r.Value, 1, 0)
			notAbove += vrt.Ite(pts[i].Value <= r.Value, 1, 0)
		}
		vrt.Assert(vrt.And(below <= rank-1, rank <= notAbove), "percentile: the row's value has the nearest rank in value order")
	}
	vrt.Reach("end")
}

// VerifC23_UnsignedPercentile: the same for unsigned values.
func VerifC23_UnsignedPercentile() {
	n := vrt.Choose("n", 1, vrt.Bound("K", 5))
	p := verifPercentiles[vrt.Choose("p", 0, len(verifPercentiles)-1)]
	pts := make([]UnsignedPoint, n)
	for i := range pts {
		pts[i] = UnsignedPoint{Time: vrt.Int64(vrt.N("t", i)), Value: vrt.Uint64(vrt.N("v", i))}
	}
	in := append([]UnsignedPoint(nil), pts...)
	out := NewUnsignedPercentileReduceSliceFunc(float64(p))(in)
	rank := verifRank(n, p)
	if rank < 1 || rank > n {
		vrt.Assert(len(out) == 0, "percentile: no row when the rank falls outside the window")
		vrt.Reach("end")
		return
	}
	vrt.Assert(len(out) == 1, "percentile: one row")
	if len(out) == 1 {
		r := out[0]
		vrt.Assert(vrt.Any(n, func(i int) bool { return vrt.And(pts[i].Time == r.Time, pts[i].Value == r.Value) }), "percentile: the row is one of the window's points")
		below, notAbove := 0, 0
		for i := range pts {
			below += vrt.Ite(pts[i].Value < r.Value, 1, 0)
			notAbove += vrt.Ite(pts[i].Value <= r.Value, 1, 0)
		}
		vrt.Assert(vrt.And(below <= rank-1, rank <= notAbove), "percentile: the row's value has the nearest rank in value order")
	}
	vrt.Reach("end")
}
