package internal

import (
	"errors"
	"os"
	"path/filepath"
	"time"

	vrt "github.com/influxdata/influxdb/v2/internal/zzverifrt"
	"github.com/influxdata/influxdb/v2/kit/platform"
	"github.com/influxdata/influxdb/v2/pkg/durablequeue"
	"github.com/influxdata/influxdb/v2/replications/metrics"
	"go.uber.org/zap"
)

// scripted remote: every call is recorded; response i is accept or a retryable failure
type verifRemote struct {
	batches  [][]byte
	accepted []bool
	calls    int
	script   string // name prefix of the response choices; "" = always accept
}

var errVerifRemote = errors.New("remote said no")

func (r *verifRemote) Write(data []byte, attempt int) (time.Duration, error) {
	k := -1
	for i, b := range r.batches {
		if len(b) == len(data) && len(data) > 0 && data[0] == b[0] {
			k = i
		}
	}
	vrt.Assert(k >= 0, "every post carries an enqueued batch")
	if k >= 0 {
		for j := range data {
			vrt.Assert(data[j] == r.batches[k][j], "a posted batch has the bytes that were enqueued")
		}
		for j := 0; j < k; j++ {
			vrt.Assert(r.accepted[j], "a batch is posted only after every earlier batch was accepted by the remote")
		}
	}
	r.calls++
	if r.script != "" && vrt.Choose(vrt.N(r.script, r.calls), 0, 1) == 1 {
		vrt.Reach("remote failure")
		return time.Second, errVerifRemote
	}
	if k >= 0 {
		r.accepted[k] = true
	}
	return 0, nil
}

// VerifC27_SendWrite: B batches with symbolic payloads in a real durable queue (in-memory file system),
// then PASSES calls of replicationQueue.SendWrite against every accept/fail script of the remote, then
// passes against an accepting remote until the queue is empty.
func VerifC27_SendWrite() {
	B, PASSES := vrt.Bound("B", 3), vrt.Bound("PASSES", 2)
	dir := filepath.Join(vrt.FSRoot(), "replq")
	vrt.Assert(os.MkdirAll(dir, 0o777) == nil, "mkdir")
	q, err := durablequeue.NewQueue(dir, 1<<20, 1<<10, &durablequeue.SharedCount{}, 8, func([]byte) error { return nil })
	vrt.Assert(err == nil, "queue created")
	vrt.Assert(q.Open() == nil, "queue opened")
	remote := &verifRemote{script: "resp"}
	var m *metrics.ReplicationsMetrics
	if !vrt.Symbolic() {
		m = metrics.NewReplicationsMetrics()
	}
	rq := &replicationQueue{id: platform.ID(1), queue: q, logger: zap.NewNop(), metrics: m, remoteWriter: remote}
	enqueue := func(i int) {
		b := []byte{byte(i + 1), vrt.Byte(vrt.N("payload", i))}
		remote.batches = append(remote.batches, b)
		remote.accepted = append(remote.accepted, false)
		vrt.Assert(q.Append(b) == nil, "enqueue succeeds")
	}
	late := vrt.Choose("enqueue_last_later", 0, 1) == 1
	for i := 0; i < B; i++ {
		if late && i == B-1 {
			break
		}
		enqueue(i)
	}
	for p := 0; p < PASSES; p++ {
		wait, retry := rq.SendWrite()
		vrt.Assert(wait >= 0, "retry delay is not negative")
		_ = retry
		if late && p == 0 {
			enqueue(B - 1)
		}
	}
	remote.script = ""
	for p := 0; p < B+1; p++ {
		rq.SendWrite()
	}
	for i := range remote.accepted {
		vrt.Assert(remote.accepted[i], "every enqueued batch is eventually accepted once the remote accepts")
	}
	_, err = q.NewScanner()
	vrt.Assert(err != nil, "the queue is empty after everything was accepted")
	vrt.Reach("end")
}
