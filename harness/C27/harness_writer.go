package remotewrite

import (
	"context"
	"errors"
	"net/http"
	"time"

	vrt "github.com/influxdata/influxdb/v2/internal/zzverifrt"
	"github.com/influxdata/influxdb/v2"
	"github.com/influxdata/influxdb/v2/kit/platform"
	"github.com/influxdata/influxdb/v2/replications/metrics"
	"go.uber.org/zap"
)

type verifCfgStore struct{ drop bool }

func (s *verifCfgStore) GetFullHTTPConfig(context.Context, platform.ID) (*influxdb.ReplicationHTTPConfig, error) {
	return &influxdb.ReplicationHTTPConfig{RemoteURL: "http://remote", DropNonRetryableData: s.drop}, nil
}
func (s *verifCfgStore) UpdateResponseInfo(context.Context, platform.ID, int, string) error { return nil }

type verifTimeoutErr struct{}

func (verifTimeoutErr) Error() string   { return "timeout" }
func (verifTimeoutErr) Timeout() bool   { return true }
func (verifTimeoutErr) Temporary() bool { return true }

// scripted transport
var verifResp struct {
	kind       int // 0 response, 1 timeout, 2 other transport error
	status     int
	retryAfter string
}

func verifPostWrite(ctx context.Context, config *influxdb.ReplicationHTTPConfig, data []byte, timeout time.Duration) (*http.Response, error) {
	switch verifResp.kind {
	case 1:
		return nil, verifTimeoutErr{}
	case 2:
		return nil, errors.New("connection refused")
	}
	res := &http.Response{StatusCode: verifResp.status, Header: http.Header{}, Body: http.NoBody}
	if verifResp.retryAfter != "" {
		res.Header["Retry-After"] = []string{verifResp.retryAfter}
	}
	if verifResp.status != http.StatusNoContent {
		return res, invalidResponseCode(verifResp.status, nil)
	}
	return res, nil
}

// the documented backoff: 0.5s * 2^(attempts-1), 15 minutes after more than 10 attempts
func verifBackoff(attempts int) time.Duration {
	if attempts > 10 {
		return 15 * time.Minute
	}
	d := 500 * time.Millisecond
	if attempts == 0 {
		return d / 2
	}
	for i := 1; i < attempts; i++ {
		d *= 2
	}
	return d
}

// VerifC27_WriterWrite: writer.Write against every response class (symbolic status code, arbitrary
// Retry-After bytes, timeout, transport error), attempts 0..12, both settings of
// DropNonRetryableData: whether the batch counts as delivered, and the retry delay.
func VerifC27_WriterWrite() {
	attempts := vrt.Choose("attempts", 0, 12)
	store := &verifCfgStore{drop: vrt.Choose("drop_non_retryable", 0, 1) == 1}
	var m *metrics.ReplicationsMetrics
	if !vrt.Symbolic() {
		m = metrics.NewReplicationsMetrics()
	}
	w := NewWriter(platform.ID(1), store, m, zap.NewNop(), make(chan struct{}))
	verifResp.kind = vrt.Choose("transport", 0, 2)
	verifResp.status, verifResp.retryAfter = 0, ""
	if verifResp.kind == 0 {
		verifResp.status = vrt.Int("status")
		vrt.Assume(verifResp.status >= 100 && verifResp.status <= 599)
		verifResp.retryAfter = vrt.String("retry_after", vrt.Choose("retry_after_len", 0, vrt.Bound("RA", 3)))
	}
	wait, err := w.Write([]byte("m v=1"), attempts)
	back := verifBackoff(attempts)
	vrt.Assert(wait >= 0, "the retry delay is never negative")
	switch {
	case verifResp.kind != 0:
		vrt.Assert(err != nil, "a transport failure keeps the batch queued")
		vrt.Assert(wait == back, "a transport failure waits the documented backoff")
	case verifResp.status == http.StatusNoContent:
		vrt.Assert(err == nil && wait == 0, "204: delivered, no delay")
	case verifResp.status == http.StatusBadRequest && store.drop:
		vrt.Assert(err == nil && wait == 0, "400 with drop-non-retryable: the batch is dropped")
	case verifResp.status == http.StatusTooManyRequests:
		vrt.Assert(err != nil, "429 keeps the batch queued")
		ra := verifResp.retryAfter
		digits := len(ra) > 0
		n := int64(0)
		for i := 0; i < len(ra); i++ {
			digits = vrt.And(digits, ra[i] >= '0', ra[i] <= '9')
			n = n*10 + int64(ra[i]-'0')
		}
		if len(ra) == 0 {
			vrt.Assert(wait == back, "429 without Retry-After waits the documented backoff")
		} else if digits {
			if n == 0 {
				// "0" means retry at the first backoff step; other spellings of zero fall back
				vrt.Assert(wait == vrt.Ite(len(ra) == 1, verifBackoff(1), back), "429 with Retry-After 0")
			} else {
				vrt.Assert(wait == time.Duration(n)*time.Second, "429 with Retry-After n waits n seconds")
			}
		} else {
			vrt.Reach("malformed retry-after")
		}
	default:
		vrt.Assert(err != nil, "any other status keeps the batch queued")
		vrt.Assert(wait == back, "any other status waits the documented backoff")
	}
	vrt.Reach("end")
}
