package authorizer

import (
	"context"

	"github.com/influxdata/influxdb/v2"
	icontext "github.com/influxdata/influxdb/v2/context"
	vrt "github.com/influxdata/influxdb/v2/internal/zzverifrt"
	"github.com/influxdata/influxdb/v2/kit/platform"
	"github.com/influxdata/influxdb/v2/kit/platform/errors"
	"github.com/opentracing/opentracing-go"
)

func verifStartSpan(ctx context.Context, opts ...opentracing.StartSpanOption) (opentracing.Span, context.Context) {
	return opentracing.NoopTracer{}.StartSpan(""), ctx
}

var verifTypes = []influxdb.ResourceType{influxdb.BucketsResourceType, influxdb.AuthorizationsResourceType,
	influxdb.UsersResourceType, influxdb.OrgsResourceType, influxdb.InstanceResourceType}

func verifID(name string) platform.ID {
	id := platform.ID(vrt.Uint64(name))
	vrt.Assume(id != 0)
	return id
}

func verifIDPtr(name string) *platform.ID {
	if vrt.Choose(name+"_nil", 0, 1) == 1 {
		return nil
	}
	id := verifID(name)
	return &id
}

// an arbitrary well-formed permission: read or write on one of six shapes (IDs symbolic)
func verifPerm(name string) influxdb.Permission {
	p := influxdb.Permission{Action: influxdb.ReadAction}
	if vrt.Choose(name+"_write", 0, 1) == 1 {
		p.Action = influxdb.WriteAction
	}
	org, id := verifID(name+"_org"), verifID(name+"_id")
	switch vrt.Choose(name+"_shape", 0, 5) {
	case 0: // every bucket
		p.Resource = influxdb.Resource{Type: influxdb.BucketsResourceType}
	case 1: // buckets of an org
		p.Resource = influxdb.Resource{Type: influxdb.BucketsResourceType, OrgID: &org}
	case 2: // one bucket
		p.Resource = influxdb.Resource{Type: influxdb.BucketsResourceType, OrgID: &org, ID: &id}
	case 3: // authorizations of an org
		p.Resource = influxdb.Resource{Type: influxdb.AuthorizationsResourceType, OrgID: &org}
	case 4: // one user / one org
		if vrt.Choose(name+"_user", 0, 1) == 1 {
			p.Resource = influxdb.Resource{Type: influxdb.UsersResourceType, ID: &id}
		} else {
			p.Resource = influxdb.Resource{Type: influxdb.OrgsResourceType, ID: &id}
		}
	case 5: // operator
		p.Resource = influxdb.Resource{Type: influxdb.InstanceResourceType}
	}
	return p
}

// the statement of C28 (what a held permission grants), written out literally
func verifGrants(p, req influxdb.Permission) bool {
	sameOrg := false
	if p.Resource.OrgID != nil && req.Resource.OrgID != nil {
		sameOrg = *p.Resource.OrgID == *req.Resource.OrgID
	}
	sameID := false
	if p.Resource.ID != nil && req.Resource.ID != nil {
		sameID = *p.Resource.ID == *req.Resource.ID
	}
	typeWide := p.Resource.OrgID == nil && p.Resource.ID == nil
	orgScoped := p.Resource.OrgID != nil && p.Resource.ID == nil
	scoped := vrt.Or(typeWide, vrt.And(orgScoped, sameOrg), vrt.And(p.Resource.ID != nil, sameID))
	return vrt.And(p.Action == req.Action,
		vrt.Or(p.Resource.Type == influxdb.InstanceResourceType, vrt.And(p.Resource.Type == req.Resource.Type, scoped)))
}

func verifHolds(held []influxdb.Permission, req influxdb.Permission) bool {
	ok := false
	for _, p := range held {
		ok = vrt.Or(ok, verifGrants(p, req))
	}
	return ok
}

func verifCaller(n int) (context.Context, []influxdb.Permission) {
	var held []influxdb.Permission
	for i := 0; i < n; i++ {
		held = append(held, verifPerm(vrt.N("held", i)))
	}
	a := &influxdb.Authorization{ID: 1, Status: influxdb.Active, Permissions: held}
	return icontext.SetAuthorizer(context.Background(), a), held
}

type verifAuthStore struct {
	influxdb.AuthorizationService
	created []*influxdb.Authorization
}

func (s *verifAuthStore) CreateAuthorization(ctx context.Context, a *influxdb.Authorization) error {
	s.created = append(s.created, a)
	return nil
}

// VerifC29_CreateAuthorization: a caller holding N arbitrary permissions asks for a token with M
// arbitrary permissions for an arbitrary org and user. The token is stored iff the caller may write
// authorizations in that org, may write that user, and already holds every permission being granted;
// otherwise the call fails and nothing is stored.
func VerifC29_CreateAuthorization() {
	ctx, held := verifCaller(vrt.Bound("N", 2))
	M := vrt.Bound("M", 2)
	tok := &influxdb.Authorization{OrgID: verifID("tok_org"), UserID: verifID("tok_user")}
	for i := 0; i < M; i++ {
		tok.Permissions = append(tok.Permissions, verifPerm(vrt.N("grant", i)))
	}
	store := &verifAuthStore{}
	err := NewAuthorizationService(store).CreateAuthorization(ctx, tok)

	org, user := tok.OrgID, tok.UserID
	want := vrt.And(
		verifHolds(held, influxdb.Permission{Action: influxdb.WriteAction, Resource: influxdb.Resource{Type: influxdb.AuthorizationsResourceType, OrgID: &org}}),
		verifHolds(held, influxdb.Permission{Action: influxdb.WriteAction, Resource: influxdb.Resource{Type: influxdb.UsersResourceType, ID: &user}}))
	for _, p := range tok.Permissions {
		want = vrt.And(want, verifHolds(held, p))
	}
	vrt.Assert((err == nil) == want, "the token is created iff the caller may create it and holds every permission it grants")
	vrt.Assert((len(store.created) == 1) == (err == nil), "a denied call stores nothing; an allowed call stores the token once")
	if err != nil {
		vrt.Reach("denied")
	}
	vrt.Reach("end")
}

type verifBucketStore struct {
	influxdb.BucketService
	buckets  []*influxdb.Bucket
	mutated  int
	lastCall string
}

func (s *verifBucketStore) FindBucketByID(ctx context.Context, id platform.ID) (*influxdb.Bucket, error) {
	for _, b := range s.buckets {
		if b.ID == id {
			return b, nil
		}
	}
	return nil, &errors.Error{Code: errors.ENotFound, Msg: "bucket not found"}
}
func (s *verifBucketStore) FindBuckets(ctx context.Context, f influxdb.BucketFilter, opt ...influxdb.FindOptions) ([]*influxdb.Bucket, int, error) {
	out := append([]*influxdb.Bucket(nil), s.buckets...)
	return out, len(out), nil
}
func (s *verifBucketStore) CreateBucket(ctx context.Context, b *influxdb.Bucket) error {
	s.mutated++
	return nil
}
func (s *verifBucketStore) UpdateBucket(ctx context.Context, id platform.ID, upd influxdb.BucketUpdate) (*influxdb.Bucket, error) {
	s.mutated++
	return s.FindBucketByID(ctx, id)
}
func (s *verifBucketStore) DeleteBucket(ctx context.Context, id platform.ID) error {
	s.mutated++
	return nil
}

// VerifC29_Buckets: B buckets (user or system type, arbitrary ids/orgs) behind the authorizing
// BucketService; a caller with N arbitrary permissions lists exactly the buckets it may read, and one
// mutating call (create/update/delete, arbitrary target) reaches the store iff the caller may write
// the target.
func VerifC29_Buckets() {
	ctx, held := verifCaller(vrt.Bound("N", 2))
	B := vrt.Bound("B", 2)
	store := &verifBucketStore{}
	for i := 0; i < B; i++ {
		b := &influxdb.Bucket{ID: verifID(vrt.N("bucket_id", i)), OrgID: verifID(vrt.N("bucket_org", i)), Type: influxdb.BucketTypeUser}
		if vrt.Choose(vrt.N("bucket_system", i), 0, 1) == 1 {
			b.Type = influxdb.BucketTypeSystem
		}
		for _, o := range store.buckets {
			vrt.Assume(o.ID != b.ID)
		}
		store.buckets = append(store.buckets, b)
	}
	svc := NewBucketService(store)
	readable := func(b *influxdb.Bucket) bool {
		id, org := b.ID, b.OrgID
		if b.Type == influxdb.BucketTypeSystem {
			return verifHolds(held, influxdb.Permission{Action: influxdb.ReadAction, Resource: influxdb.Resource{Type: influxdb.OrgsResourceType, ID: &org}})
		}
		return verifHolds(held, influxdb.Permission{Action: influxdb.ReadAction, Resource: influxdb.Resource{Type: influxdb.BucketsResourceType, ID: &id, OrgID: &org}})
	}
	got, n, err := svc.FindBuckets(ctx, influxdb.BucketFilter{})
	vrt.Assert(err == nil && n == len(got), "FindBuckets succeeds")
	for _, b := range store.buckets {
		listed := false
		for _, g := range got {
			if g == b {
				listed = true
			}
		}
		vrt.Assert(listed == readable(b), "FindBuckets lists exactly the buckets the caller may read")
	}
	for _, b := range store.buckets {
		_, err := svc.FindBucketByID(ctx, b.ID)
		vrt.Assert((err == nil) == readable(b), "FindBucketByID returns a bucket iff the caller may read it")
	}

	target := store.buckets[vrt.Choose("target", 0, B-1)]
	tid, torg := target.ID, target.OrgID
	var merr error
	var want bool
	switch vrt.Choose("mutation", 0, 2) {
	case 0:
		org := verifID("new_bucket_org")
		merr = svc.CreateBucket(ctx, &influxdb.Bucket{OrgID: org, Name: "b"})
		want = verifHolds(held, influxdb.Permission{Action: influxdb.WriteAction, Resource: influxdb.Resource{Type: influxdb.BucketsResourceType, OrgID: &org}})
	case 1:
		_, merr = svc.UpdateBucket(ctx, tid, influxdb.BucketUpdate{})
		want = verifHolds(held, influxdb.Permission{Action: influxdb.WriteAction, Resource: influxdb.Resource{Type: influxdb.BucketsResourceType, ID: &tid, OrgID: &torg}})
	case 2:
		merr = svc.DeleteBucket(ctx, tid)
		want = verifHolds(held, influxdb.Permission{Action: influxdb.WriteAction, Resource: influxdb.Resource{Type: influxdb.BucketsResourceType, ID: &tid, OrgID: &torg}})
	}
	vrt.Assert((merr == nil) == want, "a mutating call succeeds iff the caller may write the target")
	vrt.Assert((store.mutated == 1) == (merr == nil) && store.mutated <= 1, "a denied call leaves the store unchanged")
	vrt.Reach("end")
}

// VerifC29_VerifyPermissions: the token-permission check used by both CreateAuthorization wrappers:
// a list of M arbitrary permissions is accepted iff the caller holds every one of them.
func VerifC29_VerifyPermissions() {
	ctx, held := verifCaller(vrt.Bound("N", 1))
	M := vrt.Bound("M", 2)
	var grants []influxdb.Permission
	for i := 0; i < M; i++ {
		grants = append(grants, verifPerm(vrt.N("grant", i)))
	}
	if M >= 2 && vrt.Choose("same_resource", 0, 1) == 1 {
		// the second permission names the resource of the first (either action)
		grants[1].Resource = grants[0].Resource
	}
	err := VerifyPermissions(ctx, grants)
	want := true
	for _, p := range grants {
		want = vrt.And(want, verifHolds(held, p))
	}
	vrt.Assert((err == nil) == want, "a permission list is accepted iff the caller holds every permission in it")
	vrt.Reach("end")
}
