package meta

import (
	"time"

	vrt "github.com/influxdata/influxdb/v2/internal/zzverifrt"
)

// instants between 1970 and 2200, durations up to ~146 years: the bounded domain of C19
func verifInstant(name string) (time.Time, int64) {
	x := vrt.Int64(name)
	vrt.Assume(x >= 0)
	vrt.Assume(x <= 7258118400000000000)
	return time.Unix(0, x).UTC(), x
}

// VerifC19_ExpiredShardGroups: a group is reported expired exactly when the policy has a finite
// retention period, the group is not already deleted, and its END plus the period is before the check
// time — truncation, start time or neighbours play no role. DeletedShardGroups lists exactly the deleted ones.
func VerifC19_ExpiredShardGroups() {
	G := vrt.Bound("G", 2)
	now, nowx := verifInstant("now")
	dur := vrt.Int64("retention")
	vrt.Assume(dur >= 0)
	vrt.Assume(dur <= 1900000000000000000) // ~60 years: end + retention stays inside int64 nanoseconds (oracle arithmetic)
	rp := &RetentionPolicyInfo{Name: "rp", Duration: time.Duration(dur)}
	ends := make([]int64, G)
	deleted := make([]bool, G)
	for i := 0; i < G; i++ {
		st, s := verifInstant(vrt.N("start", i))
		en, e := verifInstant(vrt.N("end", i))
		vrt.Assume(s < e)
		ends[i] = e
		g := ShardGroupInfo{ID: uint64(i + 1), StartTime: st, EndTime: en, Shards: []ShardInfo{{ID: uint64(10 + i)}}}
		if vrt.Choose(vrt.N("deleted", i), 0, 1) == 1 {
			g.DeletedAt, _ = verifInstant(vrt.N("deleted_at", i))
			vrt.Assume(!g.DeletedAt.IsZero())
			deleted[i] = true
		}
		if vrt.Choose(vrt.N("truncated", i), 0, 1) == 1 {
			var tx int64
			g.TruncatedAt, tx = verifInstant(vrt.N("truncated_at", i))
			vrt.Assume(vrt.And(tx > s, tx < e))
		}
		rp.ShardGroups = append(rp.ShardGroups, g)
	}
	exp := rp.ExpiredShardGroups(now)
	del := rp.DeletedShardGroups()
	for i := 0; i < G; i++ {
		want := vrt.And(dur != 0, !deleted[i], ends[i]+dur < nowx)
		got := false
		for _, g := range exp {
			if g.ID == uint64(i+1) {
				got = true
			}
		}
		vrt.Assert(got == want, "expired: exactly the live groups whose end + retention is before now")
		gotDel := false
		for _, g := range del {
			if g.ID == uint64(i+1) {
				gotDel = true
			}
		}
		vrt.Assert(gotDel == deleted[i], "deleted: exactly the groups marked deleted")
	}
	vrt.Reach("end")
}
