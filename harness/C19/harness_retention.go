package retention

import (
	"context"
	"time"

	vrt "github.com/influxdata/influxdb/v2/internal/zzverifrt"
	"github.com/influxdata/influxdb/v2/v1/services/meta"
	"go.uber.org/zap"
	"go.uber.org/zap/zapcore"
)

var verifNowNs int64

func verifNow() time.Time { return time.Unix(0, verifNowNs) }

func verifNewOperation(ctx context.Context, log *zap.Logger, msg, name string, fields ...zapcore.Field) (*zap.Logger, func()) {
	return log, func() {}
}

type verifMeta struct {
	dbs           []meta.DatabaseInfo
	deletedGroups []uint64
	pruned        int
}

func (m *verifMeta) Databases() []meta.DatabaseInfo { return m.dbs }
func (m *verifMeta) DeleteShardGroup(db, rp string, id uint64) error {
	m.deletedGroups = append(m.deletedGroups, id)
	return nil
}
func (m *verifMeta) DropShard(id uint64) error { return nil }
func (m *verifMeta) PruneShardGroups() error   { m.pruned++; return nil }

type verifStore struct {
	ids     []uint64
	inUse   map[uint64]bool
	deleted []uint64
}

func (s *verifStore) ShardIDs() []uint64 { return s.ids }
func (s *verifStore) DeleteShard(id uint64) error {
	s.deleted = append(s.deleted, id)
	return nil
}
func (s *verifStore) SetShardNewReadersBlocked(id uint64, blocked bool) error { return nil }
func (s *verifStore) ShardInUse(id uint64) (bool, error)                     { return s.inUse[id], nil }

// VerifC19_DeletionCheck: one retention pass (Service.DeletionCheck) over a policy with a symbolic
// retention period and G shard groups with symbolic end times (some already marked deleted), at a
// symbolic instant: the meta client is asked to delete exactly the live groups whose end + retention is
// before now, and the store is asked to delete exactly the local shards of expired or already deleted
// groups that are not in use; no shard of a group that is still inside the retention period is touched.
func VerifC19_DeletionCheck() {
	G := vrt.Bound("G", 2)
	nowx := vrt.Int64("now")
	vrt.Assume(nowx >= 0)
	vrt.Assume(nowx <= 7258118400000000000)
	verifNowNs = nowx
	dur := vrt.Int64("retention")
	vrt.Assume(dur >= 0)
	vrt.Assume(dur <= 1900000000000000000)
	rp := meta.RetentionPolicyInfo{Name: "rp", Duration: time.Duration(dur)}
	ends := make([]int64, G)
	deleted := make([]bool, G)
	store := &verifStore{inUse: map[uint64]bool{}}
	for i := 0; i < G; i++ {
		s, e := vrt.Int64(vrt.N("start", i)), vrt.Int64(vrt.N("end", i))
		vrt.Assume(s >= 0)
		vrt.Assume(s < e)
		vrt.Assume(e <= 7258118400000000000)
		ends[i] = e
		g := meta.ShardGroupInfo{ID: uint64(i + 1), StartTime: time.Unix(0, s).UTC(), EndTime: time.Unix(0, e).UTC(),
			Shards: []meta.ShardInfo{{ID: uint64(10 + i)}}}
		if vrt.Choose(vrt.N("deleted", i), 0, 1) == 1 {
			g.DeletedAt = time.Unix(0, 1).UTC()
			deleted[i] = true
		}
		rp.ShardGroups = append(rp.ShardGroups, g)
		if vrt.Choose(vrt.N("local", i), 0, 1) == 1 {
			store.ids = append(store.ids, uint64(10+i))
			if vrt.Choose(vrt.N("in_use", i), 0, 1) == 1 {
				store.inUse[uint64(10+i)] = true
			}
		}
	}
	m := &verifMeta{dbs: []meta.DatabaseInfo{{Name: "db", RetentionPolicies: []meta.RetentionPolicyInfo{rp}}}}
	svc := NewService(Config{Enabled: true})
	svc.MetaClient = &ossMetaClientAdapter{OSSMetaClient: m}
	svc.TSDBStore = store
	var dropped []uint64
	svc.DropShardMetaRef = func(id uint64, owners []uint64) error { dropped = append(dropped, id); return nil }
	svc.logger = zap.NewNop()
	svc.DeletionCheck(context.Background())

	has := func(a []uint64, x uint64) bool {
		for _, y := range a {
			if y == x {
				return true
			}
		}
		return false
	}
	for i := 0; i < G; i++ {
		expired := vrt.And(dur != 0, !deleted[i], ends[i]+dur < nowx)
		vrt.Assert(has(m.deletedGroups, uint64(i+1)) == expired, "the meta client deletes exactly the live groups whose end + retention is before now")
		local := has(store.ids, uint64(10+i))
		wantShard := vrt.And(local, !store.inUse[uint64(10+i)], vrt.Or(deleted[i], expired))
		vrt.Assert(has(store.deleted, uint64(10+i)) == wantShard, "the store deletes exactly the local, unused shards of expired or deleted groups")
		if !deleted[i] {
			vrt.Assert(vrt.Implies(vrt.Not(expired), vrt.And(!has(store.deleted, uint64(10+i)), !has(dropped, uint64(10+i)))),
				"a shard whose group is inside the retention period is never deleted or dereferenced")
		}
	}
	vrt.Reach("end")
}
