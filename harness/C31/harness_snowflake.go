package snowflake

import (
	vrt "github.com/influxdata/influxdb/v2/internal/zzverifrt"
)

// verifNow replaces now() (stub: the clock is an arbitrary value).
func verifNow() uint64 { return vrt.Uint64(vrt.N("now", verifNowCalls())) }

var verifNowN int

func verifNowCalls() int { verifNowN++; return verifNowN }

// VerifC31_NextStep: one inductive step of Generator.Next from an arbitrary valid state:
// the state strictly increases, keeps its server bits clear, and the returned id is non-zero,
// carries the machine id, and is strictly larger than any id derived from an earlier state.
func VerifC31_NextStep() {
	verifNowN = 0
	m := vrt.Choose("machine", 0, 1) // 0 and the maximum; the machine bits do not interact with the step
	if m == 1 {
		m = serverMax
	}
	g := New(m)
	s0 := vrt.Uint64("state")
	// representation invariant: server bits of the state are clear
	vrt.Assume(s0&(uint64(serverMax)<<serverShift) == 0)
	// the 42-bit millisecond field is not saturated (year 2156) and neither is the clock
	vrt.Assume(s0>>timeShift&timeMask < timeMask)
	g.state = s0
	r1 := g.Next()
	s1 := g.state
	vrt.Assert(s1 > s0, "next: state strictly increases")
	vrt.Assert(s1&(uint64(serverMax)<<serverShift) == 0, "next: server bits stay clear")
	vrt.Assert(r1 == s1|g.machine, "next: id = state | machine")
	vrt.Assert(r1 != 0, "next: id non-zero")
	vrt.Assert(r1 > s0|g.machine, "next: id larger than every earlier id of this generator")
	// a second step keeps increasing
	r2 := g.Next()
	vrt.Assume(s1>>timeShift&timeMask < timeMask)
	vrt.Assert(r2 > r1, "next: second id larger than first")
	vrt.Reach("end")
}

// VerifC31_EncodeInjective: the 11-character rendering is injective. Decided compositionally:
// (a) per position, equal characters imply equal 6-bit groups (the digit table has no repeats);
// (b) equal 6-bit groups at all 11 positions imply equal numbers.
func VerifC31_EncodeInjective() {
	n1, n2 := vrt.Uint64("n1"), vrt.Uint64("n2")
	var s, t [11]byte
	encode(&s, n1)
	encode(&t, n2)
	allGroups := true
	for k := 0; k < 11; k++ {
		sh := uint(6 * (10 - k))
		g1, g2 := (n1>>sh)&0x3f, (n2>>sh)&0x3f
		vrt.Assert(vrt.Iff(s[k] == t[k], g1 == g2), "encode: character k identifies its 6-bit group")
		allGroups = vrt.And(allGroups, g1 == g2)
	}
	vrt.Assert(vrt.Implies(allGroups, n1 == n2), "encode: 11 groups determine the number")
	vrt.Reach("end")
}

// VerifC31_ConcurrentNext: G goroutines call Next() on one generator concurrently (CALLS ids each), from an
// arbitrary valid state and with an arbitrary clock reading per call; every schedule with up to PREEMPT
// pre-emptions at the atomic operations of the package is explored. All ids are pairwise distinct, carry
// the machine id and are larger than every id handed out before.
func VerifC31_ConcurrentNext() {
	verifNowN = 0
	G, CALLS := vrt.Bound("G", 2), vrt.Bound("CALLS", 1)
	g := New(5)
	s0 := vrt.Uint64("state")
	vrt.Assume(s0&(uint64(serverMax)<<serverShift) == 0)
	vrt.Assume(s0>>timeShift&timeMask < timeMask-8)
	vrt.Assume(s0&sequenceMask < sequenceMask-8 || s0&sequenceMask == sequenceMask)
	g.state = s0
	ids := make([][]uint64, G)
	for i := 0; i < G; i++ {
		i := i
		vrt.Go(func() {
			for c := 0; c < CALLS; c++ {
				ids[i] = append(ids[i], g.Next())
			}
		})
	}
	vrt.Join()
	var all []uint64
	for i := range ids {
		vrt.Assert(len(ids[i]) == CALLS, "every caller got its ids")
		for c, id := range ids[i] {
			vrt.Assert(id&(uint64(serverMax)<<serverShift) == g.machine, "id carries the machine id")
			vrt.Assert(id > s0|g.machine, "id larger than every earlier id of this generator")
			if c > 0 {
				vrt.Assert(id > ids[i][c-1], "ids of one caller increase")
			}
			all = append(all, id)
		}
	}
	for a := range all {
		for b := a + 1; b < len(all); b++ {
			vrt.Assert(all[a] != all[b], "concurrently generated ids are pairwise distinct")
		}
	}
	vrt.Reach("end")
}
