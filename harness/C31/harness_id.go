package platform

import (
	"strconv"

	vrt "github.com/influxdata/influxdb/v2/internal/zzverifrt"
)

// verifParseUintHex16 replaces strconv.ParseUint under symgo (stub, part of the claim): a branch-free
// transcription of ParseUint(s, 16, 64) for len(s) == 16 (the only call shape in ID.Decode):
// every byte must be a hex digit of either case; 16 digits cannot overflow 64 bits.
func verifParseUintHex16(s string, base int, bitSize int) (uint64, error) {
	if base != 16 || bitSize != 64 || len(s) != 16 {
		panic("verifParseUintHex16: unexpected call shape")
	}
	var n uint64
	ok := true
	for i := 0; i < 16; i++ {
		c := s[i]
		isDig := vrt.And(c >= '0', c <= '9')
		isLow := vrt.And(c >= 'a', c <= 'f')
		isUp := vrt.And(c >= 'A', c <= 'F')
		d := vrt.Ite(isDig, c-'0', vrt.Ite(isLow, c-'a'+10, c-'A'+10))
		ok = vrt.And(ok, vrt.Or(isDig, isLow, isUp))
		n = n<<4 | uint64(d)
	}
	if ok {
		return n, nil
	}
	return 0, strconv.ErrSyntax
}

func verifIsLowerHex(c byte) bool {
	return vrt.Or(vrt.And(c >= '0', c <= '9'), vrt.And(c >= 'a', c <= 'f'))
}

// VerifC31_EncodeDecode: every valid ID encodes to 16 lowercase hex characters that decode back to it;
// the zero ID is rejected by Encode.
func VerifC31_EncodeDecode() {
	x := vrt.Uint64("x")
	b, err := ID(x).Encode()
	if x == 0 {
		vrt.Assert(err != nil, "encode: zero id rejected")
		vrt.Reach("zero")
		vrt.Reach("end")
		return
	}
	vrt.Assert(err == nil, "encode: valid id accepted")
	vrt.Assert(len(b) == 16, "encode: 16 characters")
	vrt.Assert(vrt.All(len(b), func(i int) bool { return verifIsLowerHex(b[i]) }), "encode: lowercase hex")
	var y ID
	err = y.Decode(b)
	vrt.Assert(err == nil, "decode(encode(x)) succeeds")
	vrt.Assert(uint64(y) == x, "decode(encode(x)) == x")
	var z ID
	err = z.DecodeFromString(ID(x).String())
	vrt.Assert(vrt.And(err == nil, uint64(z) == x), "DecodeFromString(String(x)) == x")
	vrt.Reach("end")
}

// VerifC31_DecodeArbitrary: an arbitrary string of length 15..17 decodes iff it is a 16-hex-digit
// spelling of a non-zero value, and then re-encodes to its lowercase form.
func VerifC31_DecodeArbitrary() {
	n := vrt.Choose("len", 15, 17)
	s := vrt.Bytes("s", n)
	var id ID
	err := id.Decode(s)
	if n != 16 {
		vrt.Assert(err != nil, "decode: wrong length rejected")
		vrt.Reach("end")
		return
	}
	allHex := vrt.All(16, func(i int) bool {
		c := s[i]
		return vrt.Or(verifIsLowerHex(c), vrt.And(c >= 'A', c <= 'F'))
	})
	allZero := vrt.All(16, func(i int) bool { return s[i] == '0' })
	vrt.Assert(vrt.Iff(err == nil, vrt.And(allHex, vrt.Not(allZero))), "decode: accepts exactly non-zero 16-hex-digit strings")
	if err == nil {
		vrt.Reach("accepted")
		b, err2 := id.Encode()
		vrt.Assert(err2 == nil, "decode ok implies encode ok")
		vrt.Assert(vrt.All(16, func(i int) bool {
			c := s[i]
			lower := vrt.Ite(vrt.And(c >= 'A', c <= 'F'), c+32, c)
			return b[i] == lower
		}), "encode(decode(s)) == lower(s)")
	}
	vrt.Reach("end")
}
