package tsm1

import (
	"context"
	"sort"

	vrt "github.com/influxdata/influxdb/v2/internal/zzverifrt"
	"github.com/influxdata/influxdb/v2/models"
)

// VerifC17_DeleteVsWrite: a range delete of series "cpu,host=a" (real Engine.deleteSeriesRange over one TSM
// file and the cache, both holding a point of the series) runs while a point of the same series — same field
// or a new field — is written through the real Engine.WritePoints. Every schedule with up to PREEMPT
// pre-emptions at the mutex/atomic operations of tsm1 is explored. The delete succeeds, tombstones the
// file key over the range, removes the old cache point iff it is in the range; the concurrently written
// point is either still in the cache or lies inside the deleted range; the cache size accounts for what
// is held.
func VerifC17_DeleteVsWrite() {
	bound := func(t int64) {
		vrt.Assume(t > -4611686018427387904)
		vrt.Assume(t < 4611686018427387904)
	}
	const series = "cpu,host=a"
	f := &verifMTSM{ts: map[string][]int64{}, tombs: map[string][]TimeRange{}}
	ft := vrt.Int64("ft")
	bound(ft)
	for _, s := range []string{series, "mem,host=a"} {
		k := s + "#!~#v"
		f.keys = append(f.keys, k)
		f.ts[k] = []int64{ft}
	}
	sort.Strings(f.keys)
	f.all = append([]string(nil), f.keys...)
	e := &Engine{Cache: verifNewCache(0), FileStore: &FileStore{files: []TSMFile{f}}}
	ct := vrt.Int64("ct")
	bound(ct)
	// the series keeps a point beyond the delete domain, so that the index reconciliation leaves it alone
	vrt.Assert(e.Cache.WriteMulti(map[string][]Value{series + "#!~#v": {NewIntegerValue(ct, 7), NewIntegerValue(4611686018427387904+5, 8)}}) == nil, "cache write")
	min, max := vrt.Int64("dmin"), vrt.Int64("dmax")
	vrt.Assume(min <= max)
	bound(min)
	bound(max)
	wt, wv := vrt.Int64("wt"), vrt.Int64("wv")
	bound(wt)
	vrt.Assume(wt != ct)
	field := []string{"v", "w"}[vrt.Choose("written_field", 0, 1)]
	p := &verifEPoint{key: series, t: wt, fields: []verifEField{{key: field, v: wv}}}
	var werr, derr error
	vrt.Go(func() { werr = e.WritePoints(context.Background(), []models.Point{p}) })
	vrt.Go(func() { derr = e.deleteSeriesRange(context.Background(), [][]byte{[]byte(series)}, min, max) })
	vrt.Join()
	vrt.Assert(werr == nil, "the write is acknowledged")
	vrt.Assert(derr == nil, "delete returns success")

	if f.OverlapsTimeRange(min, max) {
		covered := false
		for _, tr := range f.tombs[series+"#!~#v"] {
			covered = vrt.Or(covered, vrt.And(tr.Min == min, tr.Max == max))
		}
		vrt.Assert(covered, "the file key of the series is tombstoned over the range")
	}
	vrt.Assert(len(f.tombs["mem,host=a#!~#v"]) == 0, "keys of other series get no tombstone")
	vrt.Assert(f.refs == 0, "file references released")

	old := e.Cache.Values([]byte(series + "#!~#v"))
	vrt.Assert(vrt.Iff(verifHas(old, ct, 7), vrt.Not(vrt.And(min <= ct, ct <= max))), "cache: the old point is removed exactly when it is in the range")
	vrt.Assert(verifHas(old, 4611686018427387904+5, 8), "cache: the point outside the delete domain stays")
	got := e.Cache.Values([]byte(series + "#!~#" + field))
	vrt.Assert(vrt.Or(verifHas(got, wt, wv), vrt.And(min <= wt, wt <= max)), "the concurrently written point is readable unless it lies in the deleted range")
	e.Cache.mu.RLock()
	hot := verifHeldBytes(e.Cache.store)
	e.Cache.mu.RUnlock()
	vrt.Assert(e.Cache.Size() == hot, "cache size accounts for what is held")
	vrt.Reach("end")
}
