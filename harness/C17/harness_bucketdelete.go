package tsm1

import (
	"context"
	"math"
	"sort"

	vrt "github.com/influxdata/influxdb/v2/internal/zzverifrt"
)

// a TSM file with several series keys (sorted), each with ascending symbolic timestamps; a range delete
// is recorded per key (what TSMReader's tombstoner + index do is C08)
type verifMTSM struct {
	TSMFile
	keys        []string // keys currently listed by the index
	all         []string // keys written to the file
	ts          map[string][]int64
	tombs       map[string][]TimeRange
	gone        []string // keys removed because a delete covered all of their points
	dropCovered bool
	refs        int
}

func (f *verifMTSM) Ref()   { f.refs++ }
func (f *verifMTSM) Unref() { f.refs-- }
func (f *verifMTSM) TimeRange() (int64, int64) {
	lo, hi := int64(math.MaxInt64), int64(math.MinInt64)
	for _, k := range f.all {
		t := f.ts[k]
		lo = vrt.Ite(t[0] < lo, t[0], lo)
		hi = vrt.Ite(t[len(t)-1] > hi, t[len(t)-1], hi)
	}
	return lo, hi
}
func (f *verifMTSM) OverlapsTimeRange(min, max int64) bool {
	lo, hi := f.TimeRange()
	return lo <= max && hi >= min
}
func (f *verifMTSM) KeyRange() ([]byte, []byte) {
	if len(f.keys) == 0 {
		return nil, nil
	}
	return []byte(f.keys[0]), []byte(f.keys[len(f.keys)-1])
}
func (f *verifMTSM) KeyCount() int { return len(f.keys) }
func (f *verifMTSM) Seek(key []byte) int {
	if len(f.keys) == 0 {
		return 0
	}
	for i, k := range f.keys {
		if k >= string(key) {
			return i
		}
	}
	return len(f.keys) - 1 // the indirect index never returns KeyCount
}
func (f *verifMTSM) KeyAt(i int) ([]byte, byte) { return []byte(f.keys[i]), BlockInteger }
func (f *verifMTSM) BatchDelete() BatchDeleter {
	return &verifMBatch{f: f, pending: map[string][]TimeRange{}}
}

type verifMBatch struct {
	f       *verifMTSM
	pending map[string][]TimeRange
}

func (b *verifMBatch) DeleteRange(keys [][]byte, min, max int64) error {
	for _, k := range keys {
		b.pending[string(k)] = append(b.pending[string(k)], TimeRange{Min: min, Max: max})
	}
	return nil
}
func (b *verifMBatch) Commit() error {
	for k, v := range b.pending {
		b.f.tombs[k] = append(b.f.tombs[k], v...)
		// like the real index, a key whose every point is covered disappears from the file
		t := b.f.ts[k]
		if !b.f.dropCovered {
			continue
		}
		for _, tr := range v {
			if tr.Min <= t[0] && t[len(t)-1] <= tr.Max {
				var keep []string
				for _, x := range b.f.keys {
					if x != k {
						keep = append(keep, x)
					}
				}
				b.f.keys = keep
				b.f.gone = append(b.f.gone, k)
				break
			}
		}
	}
	return nil
}
func (b *verifMBatch) Rollback() error { return nil }

// "cpu,host=a!" sorts after "cpu,host=a" as a series key, but its TSM key "cpu,host=a!#!~#v" sorts
// BEFORE "cpu,host=a#!~#v" ('!' < '#'): series order and index order differ for such pairs.
var verifSeriesPool = []string{"cpu,host=a", "cpu,host=a!", "cpu,host=b", "mem,host=a"}

// VerifC17_DeleteBatch: one shard with a TSM file and a cache holding points of three series
// (field v, and a second field w for cpu,host=a); Engine.deleteSeriesRange is called with a batch of
// matched series in ARBITRARY order (the index yields series in ID order, not key order) and a
// symbolic time range. Exactly the keys of the matched series get the range tombstoned / removed from
// the cache, every other key is untouched, and no series is dropped from the index while the file
// still lists its keys.
func VerifC17_DeleteBatch() {
	P := vrt.Bound("P", 1)
	verifSeriesPool := verifSeriesPool[:vrt.Bound("POOL", 3)]
	bound := func(t int64) {
		vrt.Assume(t > -4611686018427387904)
		vrt.Assume(t < 4611686018427387904)
	}
	FILES := vrt.Bound("FILES", 1)
	var files []*verifMTSM
	var tsmFiles []TSMFile
	for fi := 0; fi < FILES; fi++ {
		f := &verifMTSM{ts: map[string][]int64{}, tombs: map[string][]TimeRange{}, dropCovered: FILES > 1}
		for si, s := range verifSeriesPool {
			// which series the file holds (at least the last one, so the file is never empty); with
			// two files: the older file holds only the first series, the newer one all of them
			if FILES == 1 && si < len(verifSeriesPool)-1 && vrt.Choose(vrt.N("in_file_"+s, fi), 0, 1) == 0 {
				continue
			}
			if FILES > 1 && fi == 0 && si > 0 {
				continue
			}
			fields := []string{"v"}
			if s == "cpu,host=a" && fi == 0 {
				fields = []string{"v", "w"}
			}
			for _, fld := range fields {
				k := s + "#!~#" + fld
				f.keys = append(f.keys, k)
				for i := 0; i < P; i++ {
					t := vrt.Int64(vrt.N("ft_"+k, fi, i))
					bound(t)
					if i > 0 {
						vrt.Assume(f.ts[k][i-1] < t)
					}
					f.ts[k] = append(f.ts[k], t)
				}
			}
		}
		sort.Strings(f.keys) // TSM index order
		f.all = append([]string(nil), f.keys...)
		files = append(files, f)
		tsmFiles = append(tsmFiles, f)
	}
	e := &Engine{Cache: verifNewCache(0), FileStore: &FileStore{files: tsmFiles}}
	cacheTs := map[string]int64{}
	keep := map[string]bool{}
	for _, s := range verifSeriesPool {
		k := s + "#!~#v"
		t := vrt.Int64("ct_" + k)
		bound(t)
		cacheTs[k] = t
		// optionally a second point beyond the delete domain keeps the series alive in the cache
		keep[s] = FILES == 1 || vrt.Choose("cache_keepalive_"+s, 0, 1) == 1
		vals := []Value{NewIntegerValue(t, 7)}
		if keep[s] {
			vals = append(vals, NewIntegerValue(4611686018427387904+5, 8))
		}
		vrt.Assert(e.Cache.WriteMulti(map[string][]Value{k: vals}) == nil, "cache write")
	}

	// the matched series, in the order the series iterator yields them
	// any non-empty subset of the series, in series-key order or reversed
	mask := vrt.Choose("batch", 1, 1<<len(verifSeriesPool)-1)
	var order []int
	for i := range verifSeriesPool {
		if mask&(1<<i) != 0 {
			order = append(order, i)
		}
	}
	if vrt.Choose("batch_reversed", 0, 1) == 1 {
		for i, j := 0, len(order)-1; i < j; i, j = i+1, j-1 {
			order[i], order[j] = order[j], order[i]
		}
	}
	matched := map[string]bool{}
	var batch [][]byte
	for _, i := range order {
		matched[verifSeriesPool[i]] = true
		batch = append(batch, []byte(verifSeriesPool[i]))
	}
	min, max := vrt.Int64("dmin"), vrt.Int64("dmax")
	vrt.Assume(min <= max)
	bound(min) // influxql.MinTime/MaxTime are widened to the int64 limits by deleteSeriesRange
	bound(max)
	// Every matched series keeps some data (a file point or cache point outside the range): the index
	// reconciliation must then leave it alone. (Dropping a series that really has nothing left goes
	// through the series file, which this harness does not have: reaching that branch panics.)
	for s := range matched {
		survives := keep[s]
		if ct, ok := cacheTs[s+"#!~#v"]; ok {
			survives = vrt.Or(survives, vrt.Not(vrt.And(min <= ct, ct <= max)))
		}
		for _, f := range files {
			for _, k := range f.all {
				if k[:len(k)-len("#!~#v")] == s {
					t := f.ts[k]
					survives = vrt.Or(survives, vrt.Not(vrt.And(min <= t[0], t[len(t)-1] <= max)))
				}
			}
		}
		vrt.Assume(survives)
	}
	err := e.deleteSeriesRange(context.Background(), batch, min, max)
	vrt.Assert(err == nil, "delete returns success")

	for _, f := range files {
		overlaps := f.OverlapsTimeRange(min, max)
		for _, k := range f.all {
			series := k[:len(k)-len("#!~#v")]
			covered := false
			for _, tr := range f.tombs[k] {
				covered = vrt.Or(covered, vrt.And(tr.Min == min, tr.Max == max))
				vrt.Assert(vrt.And(tr.Min == min, tr.Max == max), "a recorded tombstone has the requested range")
			}
			if matched[series] {
				vrt.Assert(vrt.Implies(overlaps, covered), "every key of a matched series is tombstoned over the range in a file the range overlaps")
			} else {
				vrt.Assert(len(f.tombs[k]) == 0, "keys of other series get no tombstone")
			}
		}
		vrt.Assert(f.refs == 0, "file references released")
	}
	for k, t := range cacheTs {
		series := k[:len(k)-len("#!~#v")]
		vals := e.Cache.Values([]byte(k))
		inRange := vrt.And(min <= t, t <= max)
		want := 1
		if keep[series] {
			want = 2
		}
		if matched[series] {
			vrt.Assert(vrt.Iff(len(vals) == want-1, inRange), "cache: a matched series loses exactly its points inside the range")
			vrt.Assert(len(vals) >= want-1 && len(vals) <= want, "cache: the point outside the range stays")
		} else {
			vrt.Assert(len(vals) == want, "cache: other series are untouched")
		}
	}
	vrt.Reach("end")
}

// VerifC17_DeleteBatchTwoFiles: the same with two TSM files (separate entry name for bounds/evidence).
func VerifC17_DeleteBatchTwoFiles() { VerifC17_DeleteBatch() }
