package tsm1

import (
	"context"
	"math"
	"sort"

	vrt "github.com/influxdata/influxdb/v2/internal/zzverifrt"
)

// a TSM file with several series keys (sorted), each with ascending symbolic timestamps; a range delete
// is recorded per key (what TSMReader's tombstoner + index do is C08)
type verifMTSM struct {
	TSMFile
	keys  []string
	ts    map[string][]int64
	tombs map[string][]TimeRange
	refs  int
}

func (f *verifMTSM) Ref()   { f.refs++ }
func (f *verifMTSM) Unref() { f.refs-- }
func (f *verifMTSM) TimeRange() (int64, int64) {
	lo, hi := int64(math.MaxInt64), int64(math.MinInt64)
	for _, k := range f.keys {
		t := f.ts[k]
		lo = vrt.Ite(t[0] < lo, t[0], lo)
		hi = vrt.Ite(t[len(t)-1] > hi, t[len(t)-1], hi)
	}
	return lo, hi
}
func (f *verifMTSM) OverlapsTimeRange(min, max int64) bool {
	lo, hi := f.TimeRange()
	return lo <= max && hi >= min
}
func (f *verifMTSM) KeyRange() ([]byte, []byte) {
	return []byte(f.keys[0]), []byte(f.keys[len(f.keys)-1])
}
func (f *verifMTSM) KeyCount() int { return len(f.keys) }
func (f *verifMTSM) Seek(key []byte) int {
	for i, k := range f.keys {
		if k >= string(key) {
			return i
		}
	}
	return len(f.keys) - 1 // the indirect index never returns KeyCount
}
func (f *verifMTSM) KeyAt(i int) ([]byte, byte) { return []byte(f.keys[i]), BlockInteger }
func (f *verifMTSM) BatchDelete() BatchDeleter  { return &verifMBatch{f: f, pending: map[string][]TimeRange{}} }

type verifMBatch struct {
	f       *verifMTSM
	pending map[string][]TimeRange
}

func (b *verifMBatch) DeleteRange(keys [][]byte, min, max int64) error {
	for _, k := range keys {
		b.pending[string(k)] = append(b.pending[string(k)], TimeRange{Min: min, Max: max})
	}
	return nil
}
func (b *verifMBatch) Commit() error {
	for k, v := range b.pending {
		b.f.tombs[k] = append(b.f.tombs[k], v...)
	}
	return nil
}
func (b *verifMBatch) Rollback() error { return nil }

// "cpu,host=a!" sorts after "cpu,host=a" as a series key, but its TSM key "cpu,host=a!#!~#v" sorts
// BEFORE "cpu,host=a#!~#v" ('!' < '#'): series order and index order differ for such pairs.
var verifSeriesPool = []string{"cpu,host=a", "cpu,host=a!", "cpu,host=b", "mem,host=a"}

// VerifC17_DeleteBatch: one shard with a TSM file and a cache holding points of three series
// (field v, and a second field w for cpu,host=a); Engine.deleteSeriesRange is called with a batch of
// matched series in ARBITRARY order (the index yields series in ID order, not key order) and a
// symbolic time range. Exactly the keys of the matched series get the range tombstoned / removed from
// the cache, every other key is untouched, and no series is dropped from the index while the file
// still lists its keys.
func VerifC17_DeleteBatch() {
	P := vrt.Bound("P", 1)
	verifSeriesPool := verifSeriesPool[:vrt.Bound("POOL", 3)]
	bound := func(t int64) {
		vrt.Assume(t > -4611686018427387904)
		vrt.Assume(t < 4611686018427387904)
	}
	f := &verifMTSM{ts: map[string][]int64{}, tombs: map[string][]TimeRange{}}
	inFile := map[string]bool{}
	for si, s := range verifSeriesPool {
		// which series the file holds (at least the last one, so the file is never empty)
		if si < len(verifSeriesPool)-1 && vrt.Choose("in_file_"+s, 0, 1) == 0 {
			continue
		}
		inFile[s] = true
		fields := []string{"v"}
		if s == "cpu,host=a" {
			fields = []string{"v", "w"}
		}
		for _, fld := range fields {
			k := s + "#!~#" + fld
			f.keys = append(f.keys, k)
			for i := 0; i < P; i++ {
				t := vrt.Int64(vrt.N("ft_"+k, i))
				bound(t)
				if i > 0 {
					vrt.Assume(f.ts[k][i-1] < t)
				}
				f.ts[k] = append(f.ts[k], t)
			}
		}
	}
	sort.Strings(f.keys) // TSM index order
	e := &Engine{Cache: verifNewCache(0), FileStore: &FileStore{files: []TSMFile{f}}}
	cacheTs := map[string]int64{}
	for _, s := range verifSeriesPool {
		k := s + "#!~#v"
		t := vrt.Int64("ct_" + k)
		bound(t)
		cacheTs[k] = t
		// a second point beyond the delete domain keeps the series alive in the cache, so the index
		// reconciliation never considers dropping the series (that branch needs a series file)
		vrt.Assert(e.Cache.WriteMulti(map[string][]Value{k: {NewIntegerValue(t, 7), NewIntegerValue(4611686018427387904+5, 8)}}) == nil, "cache write")
	}

	// the matched series, in the order the series iterator yields them
	// any non-empty subset of the series, in series-key order or reversed
	mask := vrt.Choose("batch", 1, 1<<len(verifSeriesPool)-1)
	var order []int
	for i := range verifSeriesPool {
		if mask&(1<<i) != 0 {
			order = append(order, i)
		}
	}
	if vrt.Choose("batch_reversed", 0, 1) == 1 {
		for i, j := 0, len(order)-1; i < j; i, j = i+1, j-1 {
			order[i], order[j] = order[j], order[i]
		}
	}
	matched := map[string]bool{}
	var batch [][]byte
	for _, i := range order {
		matched[verifSeriesPool[i]] = true
		batch = append(batch, []byte(verifSeriesPool[i]))
	}
	min, max := vrt.Int64("dmin"), vrt.Int64("dmax")
	vrt.Assume(min <= max)
	bound(min) // influxql.MinTime/MaxTime are widened to the int64 limits by deleteSeriesRange
	bound(max)
	err := e.deleteSeriesRange(context.Background(), batch, min, max)
	vrt.Assert(err == nil, "delete returns success")

	overlaps := f.OverlapsTimeRange(min, max)
	for _, k := range f.keys {
		series := k[:len(k)-len("#!~#v")]
		covered := false
		for _, tr := range f.tombs[k] {
			covered = vrt.Or(covered, vrt.And(tr.Min == min, tr.Max == max))
			vrt.Assert(vrt.And(tr.Min == min, tr.Max == max), "a recorded tombstone has the requested range")
		}
		if matched[series] {
			vrt.Assert(vrt.Implies(overlaps, covered), "every key of a matched series is tombstoned over the range in a file the range overlaps")
		} else {
			vrt.Assert(len(f.tombs[k]) == 0, "keys of other series get no tombstone")
		}
	}
	for k, t := range cacheTs {
		series := k[:len(k)-len("#!~#v")]
		vals := e.Cache.Values([]byte(k))
		inRange := vrt.And(min <= t, t <= max)
		if matched[series] {
			vrt.Assert(vrt.Iff(len(vals) == 1, inRange), "cache: a matched series loses exactly its points inside the range")
			vrt.Assert(len(vals) >= 1 && len(vals) <= 2, "cache: the point outside the range stays")
		} else {
			vrt.Assert(len(vals) == 2, "cache: other series are untouched")
		}
	}
	vrt.Assert(f.refs == 0, "file references released")
	vrt.Reach("end")
}
