package tsdb

import (
	"sync"
	"time"

	vrt "github.com/influxdata/influxdb/v2/internal/zzverifrt"
	"github.com/influxdata/influxdb/v2/models"
)

type verifTPoint struct {
	models.Point
	t int64
}

func (p *verifTPoint) Time() time.Time { return time.Unix(0, p.t) }
func (p *verifTPoint) Name() []byte    { return []byte("cpu") }

// VerifC17_EpochGuard: the store's protocol between writes and a range delete of one shard
// (Store.WriteToShard / Store.DeleteSeries*: epochTracker.StartWrite, guard.Matches, guard.Wait, EndWrite
// on one side, WaitDelete, waiter.Wait, waiter.Done on the other), run by two writers and one deleter
// concurrently with arbitrary point times and delete range. Every schedule with up to PREEMPT pre-emptions
// at the mutex/cond operations of package tsdb is explored. With a logical clock over the bodies: the body
// of a write whose point lies in the deleted range never overlaps the body of the delete.
func VerifC17_EpochGuard() {
	tr := newEpochTracker()
	min, max := vrt.Int64("dmin"), vrt.Int64("dmax")
	vrt.Assume(min <= max)
	vrt.Assume(min > -4611686018427387904)
	vrt.Assume(max < 4611686018427387904)
	clock := 0
	tick := func() int { clock++; return clock }
	// the bodies of the write and of the delete take time: a private mutex operation is a schedule point
	work := func() {
		var m sync.Mutex
		m.Lock()
		m.Unlock()
	}
	var wStart, wEnd [2]int
	var dRun, dDone int
	var pts [2]*verifTPoint
	for i := 0; i < 2; i++ {
		i := i
		t := vrt.Int64(vrt.N("t", i))
		vrt.Assume(t > -4611686018427387904)
		vrt.Assume(t < 4611686018427387904)
		pts[i] = &verifTPoint{t: t}
		vrt.Go(func() {
			guards, gen := tr.StartWrite()
			for _, g := range guards {
				if g.Matches([]models.Point{pts[i]}) {
					g.Wait()
				}
			}
			wStart[i] = tick() // sh.WritePoints begins
			work()
			wEnd[i] = tick() // ... and returns
			tr.EndWrite(gen)
		})
	}
	vrt.Go(func() {
		waiter := tr.WaitDelete(newGuard(min, max, nil, nil))
		waiter.Wait()
		dRun = tick() // the shard's delete begins
		work()
		dDone = tick()
		waiter.Done()
	})
	vrt.Join()
	vrt.Assert(dDone > 0 && wEnd[0] > 0 && wEnd[1] > 0, "writers and deleter all finish")
	for i := 0; i < 2; i++ {
		inRange := vrt.And(min <= pts[i].t, pts[i].t <= max)
		overlap := wStart[i] < dDone && wEnd[i] > dRun
		if overlap {
			vrt.Reach("a write overlaps the delete")
			vrt.Assert(vrt.Not(inRange), "a write into the deleted range never runs while the delete runs")
		}
	}
	vrt.Assert(len(tr.deletes) == 0 && tr.writes == 0, "the tracker is back to idle")
	vrt.Reach("end")
}
