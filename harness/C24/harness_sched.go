package scheduler

import (
	"time"

	"github.com/benbjohnson/clock"
	"github.com/google/btree"
	vrt "github.com/influxdata/influxdb/v2/internal/zzverifrt"
)

// ---- environment
var verifNowNs int64
var verifNextCalls int
var verifTimerResets []time.Duration
var verifTimerStops int

type verifClock struct{ clock.Clock }

func (verifClock) Now() time.Time { return time.Unix(0, verifNowNs).UTC() }

// Schedule.Next by contract: some instant strictly after `from` (cron arithmetic is the cron library's)
func verifNext(s Schedule, from time.Time) (time.Time, error) {
	verifNextCalls++
	d := vrt.Int64(vrt.N("period", verifNextCalls))
	vrt.Assume(d > 0)
	vrt.Assume(d <= 1000000000000000)
	return from.Add(time.Duration(d)), nil
}

func verifTimerReset(t *clock.Timer, d time.Duration) bool {
	verifTimerResets = append(verifTimerResets, d)
	return true
}
func verifTimerStop(t *clock.Timer) bool { verifTimerStops++; return true }

func verifMetricNoop(em *SchedulerMetrics, id ID) {}

type verifTask struct {
	id     ID
	offset time.Duration
	last   time.Time
}

func (t verifTask) ID() ID                   { return t.id }
func (t verifTask) Schedule() Schedule       { return Schedule{} }
func (t verifTask) Offset() time.Duration    { return t.offset }
func (t verifTask) LastScheduled() time.Time { return t.last }

func verifNewScheduler(workers int) *TreeScheduler {
	verifNextCalls, verifTimerResets, verifTimerStops = 0, nil, 0
	s := &TreeScheduler{priorityQueue: btree.New(degreeBtreeScheduled), nextTime: map[ID]time.Time{}, time: verifClock{},
		timer: &clock.Timer{}, done: make(chan struct{}, 1), items: &itemList{}, sm: &SchedulerMetrics{}}
	s.workchans = make([]chan Item, workers)
	for i := range s.workchans {
		s.workchans[i] = make(chan Item, 1) // a worker that can take one item without blocking
	}
	return s
}

func verifInstant(name string) (time.Time, int64) {
	x := vrt.Int64(name)
	vrt.Assume(x >= 1000000000000000000)
	vrt.Assume(x <= 2000000000000000000)
	return time.Unix(0, x).UTC(), x
}

var verifOffsets = []time.Duration{0, 30 * time.Second, -10 * time.Second}

func verifOffset(name string) time.Duration {
	return verifOffsets[vrt.Choose(name, 0, vrt.Bound("OFFS", 1))]
}

func verifDrain(s *TreeScheduler) []Item {
	var got []Item
	for _, ch := range s.workchans {
		for len(ch) > 0 {
			got = append(got, <-ch)
		}
	}
	return got
}

func verifQueueItems(s *TreeScheduler) []Item {
	var items []Item
	s.priorityQueue.Ascend(func(i btree.Item) bool { items = append(items, i.(Item)); return true })
	return items
}

// representation invariant: the queue holds exactly one item per id in nextTime, keyed by that time
func verifInvariant(s *TreeScheduler, label string) {
	items := verifQueueItems(s)
	vrt.Assert(len(items) == len(s.nextTime), label+": one queued item per scheduled task")
	for _, it := range items {
		nt, ok := s.nextTime[it.id]
		vrt.Assert(ok, label+": queued item is indexed")
		if ok {
			vrt.Assert(nt.Equal(it.when), label+": index time equals the item's due time")
		}
		vrt.Assert(it.when.Equal(it.next.Add(it.Offset)), label+": due time = scheduled time + offset")
	}
}

// VerifC24_ScheduleRelease: Schedule (also re-Schedule with another offset) keeps the invariant; after
// Release the task is gone and a later process() at any time dispatches nothing for it.
func VerifC24_ScheduleRelease() {
	s := verifNewScheduler(2)
	_, verifNowNs = verifInstant("now")
	last := time.Unix(1500000000, 0).UTC()
	t1 := verifTask{id: 7, offset: verifOffset("off1"), last: last}
	vrt.Assert(s.Schedule(t1) == nil, "schedule: accepted")
	verifInvariant(s, "after schedule")
	if vrt.Choose("reschedule", 0, 1) == 1 {
		t1b := verifTask{id: 7, offset: verifOffset("off1b"), last: last}
		vrt.Assert(s.Schedule(t1b) == nil, "reschedule: accepted")
		verifInvariant(s, "after reschedule")
		vrt.Assert(len(verifQueueItems(s)) == 1, "reschedule: the task is queued once")
	}
	other := verifTask{id: 9, offset: verifOffset("off2"), last: last}
	if vrt.Choose("with_other", 0, 1) == 1 {
		s.Schedule(other)
		verifInvariant(s, "after second task")
	}
	vrt.Assert(s.Release(7) == nil, "release: accepted")
	verifInvariant(s, "after release")
	_, verifNowNs = verifInstant("later")
	s.process()
	for _, it := range verifDrain(s) {
		vrt.Assert(it.id != 7, "release: a released task is never dispatched afterwards")
	}
	verifInvariant(s, "after process")
	vrt.Reach("end")
}

// VerifC24_Process: from two scheduled tasks and an arbitrary clock reading, process() hands every due
// item to its worker exactly once (with the due scheduled time), re-queues it for a strictly later
// scheduled time, and leaves items that are not yet due untouched.
func VerifC24_Process() {
	s := verifNewScheduler(2)
	_, verifNowNs = verifInstant("now0")
	l1 := time.Unix(1500000000, 0).UTC()
	l2 := time.Unix(1500000060, 0).UTC()
	s.Schedule(verifTask{id: 1, offset: verifOffset("off1"), last: l1})
	s.Schedule(verifTask{id: 2, offset: verifOffset("off2"), last: l2})
	before := verifQueueItems(s)
	var now time.Time
	now, verifNowNs = verifInstant("now1")
	s.process()
	got := verifDrain(s)
	after := verifQueueItems(s)
	verifInvariant(s, "after process")
	vrt.Assert(len(after) == 2, "process: both tasks stay scheduled")
	for _, b := range before {
		due := !b.when.After(now)
		n := 0
		for _, g := range got {
			if g.id == b.id {
				n++
				vrt.Assert(g.next.Equal(b.next), "process: dispatched with the scheduled time that came due")
			}
		}
		if due {
			vrt.Assert(n == 1, "process: a due item is dispatched exactly once")
		} else {
			vrt.Assert(n == 0, "process: an item that is not due is not dispatched")
		}
		for _, a := range after {
			if a.id == b.id {
				if due {
					vrt.Assert(a.next.After(b.next), "process: a dispatched item is re-queued for a later scheduled time")
				} else {
					vrt.Assert(a.next.Equal(b.next) && a.when.Equal(b.when), "process: an item that is not due is untouched")
				}
			}
		}
	}
	vrt.Reach("end")
}
