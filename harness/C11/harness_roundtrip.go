package models

import (
	"math"
	"time"

	vrt "github.com/influxdata/influxdb/v2/internal/zzverifrt"
)

// a token of n arbitrary bytes subject to the validity predicate of line protocol tokens:
// no newline, no trailing backslash (the format cannot express it), no NUL; TAB is handled by the
// separate entry VerifC11_TabToken (known finding: the renderer does not escape it, the parser
// treats it as white space)
var verifAllowTab = false

func verifToken(name string, n int) string {
	s := vrt.String(name, n)
	for i := 0; i < n; i++ {
		vrt.Assume(vrt.And(s[i] != '\n', s[i] != 0))
		if !verifAllowTab {
			vrt.Assume(s[i] != '\t')
		}
	}
	vrt.Assume(s[n-1] != '\\')
	return s
}

var verifTimes = []int64{1, MinNanoTime, MaxNanoTime, 1600000000123456789, -1}

// VerifC11_RoundTrip: render a point (one tag, one field) as line protocol and parse it back: same
// measurement, tags, field name/type/value and time. Name, tag key, tag value, field key and the string
// field value range over all byte values (escaped characters, quotes, backslashes, unicode bytes).
func VerifC11_RoundTrip() {
	L := vrt.Bound("L", 1)
	name := verifToken("name", vrt.Choose("name_len", 1, L))
	vrt.Assume(name[0] != '#') // a leading '#' makes the line a comment (documented)
	tk := verifToken("tagk", vrt.Choose("tagk_len", 1, L))
	if len(tk) == 1 {
		vrt.Assume(tk[0] != 0xff) // reserved tag keys \x00 / \xff are rejected by the parser (documented)
	}
	tv := verifToken("tagv", vrt.Choose("tagv_len", 1, L))
	fk := verifToken("fieldk", vrt.Choose("fieldk_len", 1, L))
	var fv interface{}
	kind := vrt.Choose("field_kind", 0, 4)
	sval := ""
	switch kind {
	case 0:
		fv = int64(math.MinInt64)
	case 1:
		fv = uint64(math.MaxUint64)
	case 2:
		fv = float64(-1.5e-300)
	case 3:
		fv = vrt.Bool("bool_value")
	case 4:
		sval = vrt.String("str_value", vrt.Choose("str_len", 1, L))
		fv = sval
	}
	ts := time.Unix(0, verifTimes[vrt.Choose("time", 0, len(verifTimes)-1)]).UTC()
	p, err := NewPoint(name, NewTags(map[string]string{tk: tv}), Fields{fk: fv}, ts)
	vrt.Assert(err == nil, "newpoint: a valid point is accepted")
	if err != nil {
		return
	}
	line := p.String()
	pts, err := ParsePointsString(line)
	vrt.Assert(err == nil, "parse: the rendered line parses")
	if err != nil {
		return
	}
	vrt.Assert(len(pts) == 1, "parse: exactly one point")
	if len(pts) != 1 {
		return
	}
	q := pts[0]
	vrt.Assert(string(q.Name()) == name, "roundtrip: measurement")
	tags := q.Tags()
	vrt.Assert(len(tags) == 1, "roundtrip: one tag")
	if len(tags) == 1 {
		vrt.Assert(string(tags[0].Key) == tk, "roundtrip: tag key")
		vrt.Assert(string(tags[0].Value) == tv, "roundtrip: tag value")
	}
	vrt.Assert(q.Time().Equal(ts), "roundtrip: timestamp")
	it := q.FieldIterator()
	n := 0
	for it.Next() {
		n++
		vrt.Assert(string(it.FieldKey()) == fk, "roundtrip: field key (iterator)")
		switch kind {
		case 0:
			v, err := it.IntegerValue()
			vrt.Assert(it.Type() == Integer && err == nil && v == math.MinInt64, "roundtrip: integer field")
		case 1:
			v, err := it.UnsignedValue()
			vrt.Assert(it.Type() == Unsigned && err == nil && v == math.MaxUint64, "roundtrip: unsigned field")
		case 2:
			v, err := it.FloatValue()
			vrt.Assert(it.Type() == Float && err == nil && v == -1.5e-300, "roundtrip: float field")
		case 3:
			v, err := it.BooleanValue()
			vrt.Assert(it.Type() == Boolean && err == nil && v == fv.(bool), "roundtrip: boolean field")
		case 4:
			vrt.Assert(it.Type() == String && it.StringValue() == sval, "roundtrip: string field")
		}
	}
	vrt.Assert(n == 1, "roundtrip: one field")
	fs, err := q.Fields()
	vrt.Assert(err == nil && len(fs) == 1, "roundtrip: Fields() map")
	if err == nil {
		_, ok := fs[fk]
		vrt.Assert(ok, "roundtrip: field key (Fields map)")
	}
	vrt.Reach("end")
}

// VerifC11_Key: ParseKeyBytes(MakeKey(name, tags)) returns the name and the tags.
func VerifC11_Key() {
	L := vrt.Bound("L", 1)
	name := verifToken("name", vrt.Choose("name_len", 1, L))
	tk := verifToken("tagk", vrt.Choose("tagk_len", 1, L))
	tv := verifToken("tagv", vrt.Choose("tagv_len", 1, L))
	key := MakeKey([]byte(name), NewTags(map[string]string{tk: tv}))
	n, tags := ParseKeyBytes(key)
	vrt.Assert(string(n) == name, "key: name")
	vrt.Assert(len(tags) == 1, "key: one tag")
	if len(tags) == 1 {
		vrt.Assert(string(tags[0].Key) == tk && string(tags[0].Value) == tv, "key: tag")
	}
	vrt.Reach("end")
}

// VerifC11_TabToken: the same round trip with a TAB character in the measurement or the field key.
// Known finding (see known_findings.txt): AppendString does not escape TAB while the parser treats it
// as white space, so such a point does not survive rendering and parsing.
func VerifC11_TabToken() {
	name, fk := "m", "f"
	if vrt.Choose("where", 0, 1) == 0 {
		name = "a\tb"
	} else {
		fk = "\t"
	}
	p, err := NewPoint(name, NewTags(map[string]string{"k": "v"}), Fields{fk: int64(1)}, time.Unix(0, 1).UTC())
	vrt.Assert(err == nil, "newpoint: accepted")
	pts, err := ParsePointsString(p.String())
	ok := err == nil && len(pts) == 1
	if ok {
		it := pts[0].FieldIterator()
		it.Next()
		ok = string(pts[0].Name()) == name && string(it.FieldKey()) == fk
	}
	vrt.Assert(ok, "roundtrip: token containing TAB")
	vrt.Reach("end")
}
