package tsm1

import (
	"fmt"
	"math"
	"os"
	"path/filepath"

	"github.com/golang/snappy"
	vrt "github.com/influxdata/influxdb/v2/internal/zzverifrt"
	"go.uber.org/zap"
)

// ---- stand-ins (solver side only; the native replay uses the real snappy) ------------------------
// snappy block format replaced by a transparent framing: one length byte, then the bytes. The WAL
// reader's torn-tail handling depends on the segment framing (type, length, payload), not on snappy.
func verifSnappyEncode(dst, src []byte) []byte {
	out := make([]byte, 0, len(src)+1)
	out = append(out, byte(len(src)))
	return append(out, src...)
}
func verifSnappyDecodedLen(src []byte) (int, error) {
	if len(src) == 0 || int(src[0]) != len(src)-1 {
		return 0, snappy.ErrCorrupt
	}
	return len(src) - 1, nil
}
func verifSnappyDecode(dst, src []byte) ([]byte, error) {
	if len(src) == 0 || int(src[0]) != len(src)-1 {
		return nil, snappy.ErrCorrupt
	}
	return append([]byte(nil), src[1:]...), nil
}
func verifGetBuf(size int) *[]byte { b := make([]byte, size); return &b }
func verifPutBuf(b *[]byte)        {}

func verifNewWAL(dir string) *WAL {
	return &WAL{path: dir, SegmentSize: DefaultSegmentSize, closing: make(chan struct{}),
		logger: zap.NewNop(), traceLogger: zap.NewNop(),
		stats: &walMetrics{size: verifGauge{}, writes: verifCounter{}, writesErr: verifCounter{}}}
}

// verifWALAppend is WAL.writeToLog without its admission control and group fsync scheduling: encode,
// compress, roll the segment if needed, write the framed entry, flush+sync before acknowledging.
func verifWALAppend(l *WAL, e WALEntry) {
	b, err := e.Encode(nil)
	vrt.Assert(err == nil, "wal: entry encodes")
	compressed := snappy.Encode(nil, b)
	vrt.Assert(l.rollSegment() == nil, "wal: segment available")
	vrt.Assert(l.currentSegmentWriter.Write(e.Type(), compressed) == nil, "wal: entry written")
	vrt.Assert(l.currentSegmentWriter.sync() == nil, "wal: entry synced")
}

type verifWALOp struct {
	key      string
	ts, vals []int64 // write
	del      bool    // range delete of key over [min,max]
	min, max int64
}

func (o *verifWALOp) entry() WALEntry {
	if o.del {
		return &DeleteRangeWALEntry{Keys: [][]byte{[]byte(o.key)}, Min: o.min, Max: o.max}
	}
	var vs []Value
	for i := range o.ts {
		vs = append(vs, NewIntegerValue(o.ts[i], o.vals[i]))
	}
	return &WriteWALEntry{Values: map[string][]Value{o.key: vs}}
}

func verifWALOps(M, P int) []verifWALOp {
	keys := []string{"cpu,host=a#!~#v", "mem#!~#used"}
	var ops []verifWALOp
	for m := 0; m < M; m++ {
		o := verifWALOp{key: keys[vrt.Choose(vrt.N("key", m), 0, 1)]}
		if m > 0 && vrt.Choose(vrt.N("is_delete", m), 0, 1) == 1 {
			o.del, o.min, o.max = true, vrt.Int64(vrt.N("dmin", m)), vrt.Int64(vrt.N("dmax", m))
		} else {
			n := vrt.Choose(vrt.N("points", m), 1, P)
			for i := 0; i < n; i++ {
				o.ts = append(o.ts, vrt.Int64(vrt.N("t", m, i)))
				o.vals = append(o.vals, vrt.Int64(vrt.N("v", m, i)))
			}
		}
		ops = append(ops, o)
	}
	return ops
}

// the cache content that the first n acknowledged operations define (reference: the cache model of C09)
func verifExpectCache(c *Cache, ops []verifWALOp, label string) {
	keys := []string{"cpu,host=a#!~#v", "mem#!~#used"}
	m := &verifCModel{keys: keys}
	for _, o := range ops {
		k := 0
		if o.key == keys[1] {
			k = 1
		}
		if o.del {
			for i := range m.pts {
				if m.pts[i].key == k {
					m.pts[i].live = vrt.And(m.pts[i].live, vrt.Not(vrt.And(o.min <= m.pts[i].ts, m.pts[i].ts <= o.max)))
				}
			}
			continue
		}
		for i := range o.ts {
			m.gen++
			m.pts = append(m.pts, verifCPoint{key: k, ts: o.ts[i], v: o.vals[i], gen: m.gen, live: true, hot: true})
		}
	}
	for k := range keys {
		var ps []verifPoint
		for _, p := range m.pts {
			if p.key == k {
				ps = append(ps, verifPoint{ts: p.ts, v: p.v, file: p.gen, live: p.live})
			}
		}
		vals := c.Values([]byte(keys[k]))
		ts, vs := make([]int64, len(vals)), make([]int64, len(vals))
		for i := range vals {
			ts[i] = vals[i].UnixNano()
			vs[i] = vals[i].Value().(int64)
		}
		verifCheckOutput(ps, func(int64) bool { return true }, ts, vs, true, label)
	}
}

// what Engine.Open does with the WAL: WAL.Open, then reloadCache (CacheLoader.Load over every segment)
func verifOpenAndLoad(dir string) (*WAL, *Cache) {
	l := verifNewWAL(dir)
	vrt.Assert(l.Open() == nil, "open: WAL.Open succeeds")
	e := &Engine{WAL: l, Cache: verifNewCache(0), logger: zap.NewNop(), traceLogger: zap.NewNop()}
	vrt.Assert(e.reloadCache() == nil, "open: reloadCache succeeds")
	return l, e.Cache
}

// VerifC02_TornTail: M acknowledged WAL entries (writes and range deletes, symbolic content), then a
// crash that leaves the newest segment cut at an arbitrary byte position inside or after the LAST
// record written while it was being appended (every earlier record was fsynced before its
// acknowledgement). Reopening (WAL.Open + reloadCache) recovers exactly the acknowledged entries,
// cuts the torn tail off, accepts a further write, and a second reopen still has everything.
func VerifC02_TornTail() {
	M, P := vrt.Bound("M", 2), vrt.Bound("P", 1)
	dir := filepath.Join(vrt.FSRoot(), "wal")
	l := verifNewWAL(dir)
	vrt.Assert(l.Open() == nil, "WAL.Open on an empty directory")
	ops := verifWALOps(M, P)
	// optionally the segment is closed after the first entry (as doWriteSnapshot's WAL.CloseSegment does
	// for a snapshot that has not been committed when the process dies): recovery then reads two segments
	roll := vrt.Choose("close_segment_after_first_entry", 0, 1) == 1
	for i := range ops {
		verifWALAppend(l, ops[i].entry())
		if roll && i == 0 {
			vrt.Assert(l.CloseSegment() == nil, "CloseSegment")
			vrt.Reach("two segments")
		}
	}
	seg := filepath.Join(dir, fmt.Sprintf("_%05d.wal", l.currentSegmentID))
	st, err := os.Stat(seg)
	vrt.Assert(err == nil, "segment exists")
	acked := int(st.Size())

	// one more entry is being appended when the process dies: any prefix of its bytes may be on disk
	torn := verifWALOp{key: "cpu,host=a#!~#v", ts: []int64{vrt.Int64("torn_t")}, vals: []int64{vrt.Int64("torn_v")}}
	verifWALAppend(l, torn.entry())
	st, _ = os.Stat(seg)
	full := int(st.Size())
	// how much of the torn record reached the disk: nothing, part of its 5-byte header, the header and
	// part of the payload, or all of it. (Positions are relative to the record so that a replay against
	// the real snappy, whose payload length differs from the solver-side framing, lands in the same case.)
	payload := full - acked - 5
	cut := acked
	switch vrt.Choose("crash_cut_kind", 0, 3) {
	case 1:
		cut = acked + vrt.Choose("crash_header_bytes", 1, 4)
	case 2:
		j := vrt.Choose("crash_payload_bytes", 0, payload-1)
		if j > payload-1 {
			j = payload - 1
		}
		cut = acked + 5 + j
	case 3:
		cut = full
	}
	vrt.Assert(os.Truncate(seg, int64(cut)) == nil, "crash: truncate")

	// reopen
	l2, c2 := verifOpenAndLoad(dir)
	want := ops
	if cut == full {
		want = append(append([]verifWALOp(nil), ops...), torn) // the record made it to disk completely
	} else {
		vrt.Reach("torn tail")
	}
	verifExpectCache(c2, want, "after reopen")
	st, _ = os.Stat(seg)
	if cut < full {
		vrt.Assert(int(st.Size()) == acked, "the torn tail is cut off at the end of the last complete record")
	}

	// the shard accepts a further write, and it survives the next reopen
	next := verifWALOp{key: "mem#!~#used", ts: []int64{vrt.Int64("next_t")}, vals: []int64{vrt.Int64("next_v")}}
	verifWALAppend(l2, next.entry())
	_, c3 := verifOpenAndLoad(dir)
	verifExpectCache(c3, append(append([]verifWALOp(nil), want...), next), "after write and second reopen")
	vrt.Reach("end")
}

// VerifC02_WriteEntryRoundTrip: a WriteWALEntry with up to K keys of any value type and up to N
// values per key decodes to the same map.
func VerifC02_WriteEntryRoundTrip() {
	K, N, S := vrt.Bound("K", 2), vrt.Bound("N", 2), vrt.Bound("S", 2)
	keys := []string{"a", "cpu,host=a#!~#v"}
	in := map[string][]Value{}
	for k := 0; k < K; k++ {
		typ := vrt.Choose(vrt.N("type", k), 0, 4)
		n := vrt.Choose(vrt.N("n", k), 1, N)
		var vs []Value
		for i := 0; i < n; i++ {
			t := vrt.Int64(vrt.N("t", k, i))
			switch typ {
			case 0:
				vs = append(vs, NewFloatValue(t, vrt.Float64(vrt.N("f", k, i))))
			case 1:
				vs = append(vs, NewIntegerValue(t, vrt.Int64(vrt.N("i", k, i))))
			case 2:
				vs = append(vs, NewUnsignedValue(t, vrt.Uint64(vrt.N("u", k, i))))
			case 3:
				vs = append(vs, NewBooleanValue(t, vrt.Bool(vrt.N("b", k, i))))
			case 4:
				vs = append(vs, NewStringValue(t, vrt.String(vrt.N("s", k, i), vrt.Choose(vrt.N("slen", k, i), 0, S))))
			}
		}
		in[keys[k]] = vs
	}
	w := &WriteWALEntry{Values: in}
	b, err := w.Encode(nil)
	vrt.Assert(err == nil, "encode succeeds")
	vrt.Assert(len(b) == w.MarshalSize(), "MarshalSize is the encoded length")
	out := &WriteWALEntry{Values: map[string][]Value{}}
	vrt.Assert(out.UnmarshalBinary(b) == nil, "decode succeeds")
	vrt.Assert(len(out.Values) == len(in), "same number of keys")
	for k, vs := range in {
		got := out.Values[k]
		vrt.Assert(len(got) == len(vs), "same number of values")
		for i := range vs {
			if i >= len(got) {
				break
			}
			vrt.Assert(got[i].UnixNano() == vs[i].UnixNano(), "same timestamp")
			switch x := vs[i].(type) {
			case FloatValue:
				y, ok := got[i].(FloatValue)
				vrt.Assert(ok && math.Float64bits(y.value) == math.Float64bits(x.value), "same float bits")
			case IntegerValue:
				y, ok := got[i].(IntegerValue)
				vrt.Assert(ok && y.value == x.value, "same integer")
			case UnsignedValue:
				y, ok := got[i].(UnsignedValue)
				vrt.Assert(ok && y.value == x.value, "same unsigned")
			case BooleanValue:
				y, ok := got[i].(BooleanValue)
				vrt.Assert(ok && y.value == x.value, "same boolean")
			case StringValue:
				y, ok := got[i].(StringValue)
				vrt.Assert(ok && y.value == x.value, "same string")
			}
		}
	}
	vrt.Reach("end")
}

// VerifC02_DeleteEntriesRoundTrip: DeleteRangeWALEntry and DeleteWALEntry decode to what was encoded.
func VerifC02_DeleteEntriesRoundTrip() {
	K, L := vrt.Bound("K", 2), vrt.Bound("L", 2)
	var keys [][]byte
	for k := 0; k < K; k++ {
		b := vrt.Bytes(vrt.N("key", k), vrt.Choose(vrt.N("klen", k), 1, L))
		for _, c := range b {
			vrt.Assume(c != '\n') // series keys cannot hold a raw newline (line protocol)
		}
		keys = append(keys, b)
	}
	dr := &DeleteRangeWALEntry{Keys: keys, Min: vrt.Int64("min"), Max: vrt.Int64("max")}
	b, err := dr.Encode(nil)
	vrt.Assert(err == nil && len(b) == dr.MarshalSize(), "delete-range: encodes to MarshalSize bytes")
	out := &DeleteRangeWALEntry{}
	vrt.Assert(out.UnmarshalBinary(b) == nil, "delete-range: decodes")
	vrt.Assert(out.Min == dr.Min && out.Max == dr.Max && len(out.Keys) == len(keys), "delete-range: same range and key count")
	for i := range keys {
		if i < len(out.Keys) {
			vrt.Assert(string(out.Keys[i]) == string(keys[i]), "delete-range: same keys")
		}
	}
	d := &DeleteWALEntry{Keys: keys}
	b, err = d.Encode(nil)
	vrt.Assert(err == nil, "delete: encodes")
	out2 := &DeleteWALEntry{}
	vrt.Assert(out2.UnmarshalBinary(b) == nil, "delete: decodes")
	vrt.Assert(len(out2.Keys) == len(keys), "delete: same key count")
	for i := range keys {
		if i < len(out2.Keys) {
			vrt.Assert(string(out2.Keys[i]) == string(keys[i]), "delete: same keys")
		}
	}
	vrt.Reach("end")
}

// VerifC02_UnmarshalTotal: arbitrary bytes (a torn or garbage record body) never make the decoders
// panic; they return an entry or an error.
func VerifC02_UnmarshalTotal() {
	L := vrt.Bound("L", 16)
	n := vrt.Choose("len", 0, L)
	b := vrt.Bytes("body", n)
	switch vrt.Choose("entry_type", 0, 2) {
	case 0:
		w := &WriteWALEntry{Values: map[string][]Value{}}
		_ = w.UnmarshalBinary(b)
	case 1:
		_ = (&DeleteRangeWALEntry{}).UnmarshalBinary(b)
	case 2:
		_ = (&DeleteWALEntry{}).UnmarshalBinary(b)
	}
	vrt.Reach("end")
}

// VerifC02_CleanupTempFiles: a crash can leave any subset of temporary files in the shard directory
// (a compaction/snapshot output *.tsm.tmp, a tombstone being rewritten *.tombstone.tmp, the field index
// snapshot fields.idx.tmp, a snapshot directory *.tmp), each cut at any length. Engine.cleanup (run by
// Engine.Open before anything else) removes every one of them, so that the O_EXCL creation of those
// files succeeds again, and touches nothing else.
func VerifC02_CleanupTempFiles() {
	dir := filepath.Join(vrt.FSRoot(), "shard")
	vrt.Assert(os.MkdirAll(dir, 0o777) == nil, "mkdir")
	keep := map[string][]byte{
		"000000001-000000001.tsm":       vrt.Bytes("tsm", 2),
		"000000001-000000001.tombstone": vrt.Bytes("tomb", 2),
		"fields.idx":                    vrt.Bytes("fields", 2),
		"fields.idxl":                   vrt.Bytes("log", 2),
	}
	for n, b := range keep {
		vrt.Assert(os.WriteFile(filepath.Join(dir, n), b, 0o666) == nil, "write")
	}
	leftovers := []string{"000000002-000000001.tsm.tmp", "000000001-000000001.tombstone.tmp", "fields.idx.tmp"}
	for i, n := range leftovers {
		if vrt.Choose(vrt.N("leftover", i), 0, 1) == 1 {
			torn := vrt.Bytes(vrt.N("torn", i), vrt.Choose(vrt.N("torn_len", i), 0, 2))
			vrt.Assert(os.WriteFile(filepath.Join(dir, n), torn, 0o666) == nil, "write")
		}
	}
	if vrt.Choose("snapshot_dir", 0, 1) == 1 {
		vrt.Assert(os.MkdirAll(filepath.Join(dir, "123.tmp"), 0o777) == nil, "mkdir")
		vrt.Assert(os.WriteFile(filepath.Join(dir, "123.tmp", "000000001-000000001.tsm"), []byte{1}, 0o666) == nil, "write")
	}
	e := &Engine{path: dir}
	vrt.Assert(e.cleanup() == nil, "cleanup succeeds")
	for _, n := range leftovers {
		_, err := os.Stat(filepath.Join(dir, n))
		vrt.Assert(os.IsNotExist(err), "every temporary file a crash can leave behind is removed at open")
	}
	_, err := os.Stat(filepath.Join(dir, "123.tmp"))
	vrt.Assert(os.IsNotExist(err), "a left-over snapshot directory is removed at open")
	for n, b := range keep {
		got, err := os.ReadFile(filepath.Join(dir, n))
		vrt.Assert(err == nil && len(got) == len(b), "files that are not temporary survive the clean-up")
		if len(got) == len(b) {
			for i := range b {
				vrt.Assert(got[i] == b[i], "files that are not temporary keep their content")
			}
		}
	}
	vrt.Reach("end")
}
