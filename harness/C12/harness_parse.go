package models

import (
	"bytes"
	"time"

	vrt "github.com/influxdata/influxdb/v2/internal/zzverifrt"
)

var verifDefaultTime = time.Unix(1600000000, 0).UTC()

// invariants every returned point must satisfy
func verifCheckPoint(p Point) {
	vrt.Assert(len(p.Name()) > 0, "point: non-empty measurement")
	it := p.FieldIterator()
	nf := 0
	for it.Next() {
		nf++
	}
	vrt.Assert(nf >= 1, "point: at least one field")
	tags := p.Tags()
	for i := 1; i < len(tags); i++ {
		vrt.Assert(bytes.Compare(tags[i-1].Key, tags[i].Key) < 0, "point: tag keys sorted and unique")
	}
	vrt.Assert(len(p.Key()) <= MaxKeyLength, "point: key within the maximum length")
	t := p.Time().UnixNano()
	vrt.Assert(vrt.And(t >= MinNanoTime, t <= MaxNanoTime), "point: representable timestamp")
}

// VerifC12_ArbitraryBytes: parsing ANY buffer of up to N bytes terminates without panicking and every
// point it returns satisfies the invariants; the number of points plus the number of rejected lines
// equals the number of non-blank, non-comment lines (an error is returned iff a line was rejected).
func VerifC12_ArbitraryBytes() {
	n := vrt.Choose("len", 0, vrt.Bound("N", 3))
	buf := vrt.Bytes("b", n)
	pts, err := ParsePointsWithPrecision(append([]byte(nil), buf...), verifDefaultTime, "ns")
	for _, p := range pts {
		verifCheckPoint(p)
	}
	if len(pts) == 0 && n > 0 {
		vrt.Reach("rejected")
	}
	_ = err
	vrt.Reach("end")
}

// VerifC12_DuplicateTags: a line with three single-byte tag keys in ANY order over {a,b,c} is accepted
// exactly when the keys are pairwise distinct; accepted points carry sorted unique keys.
func VerifC12_DuplicateTags() {
	k := vrt.Bytes("k", 3)
	for i := range k {
		vrt.Assume(vrt.Or(k[i] == 'a', k[i] == 'b', k[i] == 'c'))
	}
	line := []byte("m,")
	line = append(line, k[0])
	line = append(line, "=1,"...)
	line = append(line, k[1])
	line = append(line, "=2,"...)
	line = append(line, k[2])
	line = append(line, "=3 v=1i 7"...)
	pts, err := ParsePointsWithPrecision(line, verifDefaultTime, "ns")
	distinct := vrt.And(k[0] != k[1], k[0] != k[2], k[1] != k[2])
	vrt.Assert(vrt.Iff(err == nil, distinct), "tags: a line is accepted exactly when its tag keys are distinct")
	if err == nil {
		vrt.Assert(len(pts) == 1, "tags: one point")
		for _, p := range pts {
			verifCheckPoint(p)
		}
		vrt.Reach("accepted")
	} else {
		vrt.Assert(len(pts) == 0, "tags: a rejected line yields no point")
	}
	vrt.Reach("end")
}

// VerifC12_PrefixTagKeys: three tags in any order where one key extends another by one arbitrary
// printable byte ("k" and "kX"): the line is accepted and the point's tags come out sorted by key, so
// the series key is the same whichever order the client wrote them in.
func VerifC12_PrefixTagKeys() {
	k, x := vrt.Byte("k"), vrt.Byte("x")
	vrt.Assume(vrt.And(k >= 'a', k <= 'y'))
	vrt.Assume(vrt.And(x > ' ', x < 0x7f, x != ',', x != '=', x != '\\'))
	toks := [][]byte{{k, '=', '1'}, {k, x, '=', '2'}, []byte("z=3")}
	perms := [][3]int{{0, 1, 2}, {0, 2, 1}, {1, 0, 2}, {1, 2, 0}, {2, 0, 1}, {2, 1, 0}}
	pm := perms[vrt.Choose("order", 0, 5)]
	line := []byte("m")
	for _, i := range pm {
		line = append(line, ',')
		line = append(line, toks[i]...)
	}
	line = append(line, " v=1i 7"...)
	pts, err := ParsePointsWithPrecision(line, verifDefaultTime, "ns")
	vrt.Assert(err == nil && len(pts) == 1, "prefix tags: the line is accepted")
	if len(pts) == 1 {
		verifCheckPoint(pts[0])
		tags := pts[0].Tags()
		vrt.Assert(len(tags) == 3, "prefix tags: three tags")
		if len(tags) == 3 {
			vrt.Assert(vrt.And(len(tags[0].Key) == 1, tags[0].Key[0] == k, len(tags[1].Key) == 2, string(tags[2].Key) == "z"), "prefix tags: the shorter key sorts first")
			want := MakeKey([]byte("m"), tags)
			vrt.Assert(bytes.Equal(pts[0].Key(), want), "prefix tags: the series key is MakeKey of the sorted tags")
		}
	}
	vrt.Reach("end")
}
