package tsm1

import (
	"path/filepath"

	vrt "github.com/influxdata/influxdb/v2/internal/zzverifrt"
	"github.com/influxdata/influxdb/v2/models"
	"github.com/influxdata/influxdb/v2/storage/reads/datatypes"
	"github.com/influxdata/influxdb/v2/tsdb"
)

// solver side: the series file is a table of series keys (ids 1..n); native replay: a real series file
var verifSFKeys [][]byte

func verifSeriesKeyOf(f *tsdb.SeriesFile, id uint64) []byte {
	if id == 0 || int(id) > len(verifSFKeys) {
		return nil
	}
	return verifSFKeys[id-1]
}

func verifSeriesFile(names [][]byte, tags []models.Tags) (*tsdb.SeriesFile, []uint64) {
	if vrt.Symbolic() {
		verifSFKeys = nil
		var ids []uint64
		for i := range names {
			verifSFKeys = append(verifSFKeys, tsdb.AppendSeriesKey(nil, names[i], tags[i]))
			ids = append(ids, uint64(i+1))
		}
		return &tsdb.SeriesFile{}, ids
	}
	sf := tsdb.NewSeriesFile(filepath.Join(vrt.FSRoot(), "series"))
	if err := sf.Open(); err != nil {
		panic(err)
	}
	ids, err := sf.CreateSeriesListIfNotExists(names, tags)
	if err != nil {
		panic(err)
	}
	return sf, ids
}

// VerifC16_IndexPath: the delete path through the index (tsdb.PredicateSeriesIDIterator): a series with
// measurement name M (arbitrary bytes, escapes included) and tag host=H is selected exactly when the
// predicate over _measurement (\x00) and host is true of it.
func VerifC16_IndexPath() {
	n := vrt.Bound("LEN", 1)
	M := verifStr("m", vrt.Choose("mlen", 1, vrt.Bound("MLEN", n)))
	H := verifStr("h", vrt.Choose("hlen", 1, n))
	L1 := verifStr("l1", vrt.Choose("l1len", 1, n))
	L2 := verifStr("l2", vrt.Choose("l2len", 1, n))
	hostEq1, mEq1, mEq2 := H == L1, M == L1, M == L2
	var root *datatypes.Node
	var want bool
	switch vrt.Choose("shape", 0, 5) {
	case 5: // a one-byte tag key the series does not carry (whatever the measurement name looks like)
		T := verifStr("t", 1)
		root, want = verifCmp(verifEQ, verifTagRef(T), verifLit(L1)), false
	case 0:
		root, want = verifCmp(verifEQ, verifTagRef("\x00"), verifLit(L1)), mEq1
	case 1:
		root, want = verifCmp(verifNE, verifTagRef("\x00"), verifLit(L1)), !mEq1
	case 2:
		root, want = verifCmp(verifEQ, verifTagRef("host"), verifLit(L1)), hostEq1
	case 3:
		root = verifAnd(verifCmp(verifEQ, verifTagRef("host"), verifLit(L1)), verifCmp(verifEQ, verifTagRef("\x00"), verifLit(L2)))
		want = vrt.And(hostEq1, mEq2)
	case 4:
		root = verifOr(verifCmp(verifEQ, verifTagRef("host"), verifLit(L1)), verifCmp(verifNE, verifTagRef("\x00"), verifLit(L2)))
		want = vrt.Or(hostEq1, !mEq2)
	}
	p, err := NewProtobufPredicate(&datatypes.Predicate{Root: root})
	vrt.Assert(err == nil, "predicate: compiles")
	if err != nil {
		return
	}
	sf, ids := verifSeriesFile([][]byte{[]byte(M)}, []models.Tags{models.NewTags(map[string]string{"host": H})})
	itr := tsdb.NewPredicateSeriesIDIterator(tsdb.NewSeriesIDSliceIterator(ids), sf, p)
	e, err := itr.Next()
	vrt.Assert(err == nil, "iterator: no error")
	vrt.Assert((e.SeriesID != 0) == want, "index path: the series is selected exactly when the predicate is true of it")
	if !vrt.Symbolic() {
		sf.Close()
	}
	vrt.Reach("end")
}
