package tsm1

import (
	vrt "github.com/influxdata/influxdb/v2/internal/zzverifrt"
	"github.com/influxdata/influxdb/v2/models"
	"github.com/influxdata/influxdb/v2/storage/reads/datatypes"
)

func verifTagRef(s string) *datatypes.Node {
	return &datatypes.Node{NodeType: datatypes.Node_TypeTagRef, Value: &datatypes.Node_TagRefValue{TagRefValue: s}}
}
func verifLit(s string) *datatypes.Node {
	return &datatypes.Node{NodeType: datatypes.Node_TypeLiteral, Value: &datatypes.Node_StringValue{StringValue: s}}
}
func verifCmp(c datatypes.Node_Comparison, l, r *datatypes.Node) *datatypes.Node {
	return &datatypes.Node{NodeType: datatypes.Node_TypeComparisonExpression, Value: &datatypes.Node_Comparison_{Comparison: c}, Children: []*datatypes.Node{l, r}}
}
func verifAnd(l, r *datatypes.Node) *datatypes.Node {
	return &datatypes.Node{NodeType: datatypes.Node_TypeLogicalExpression, Value: &datatypes.Node_Logical_{Logical: datatypes.Node_LogicalAnd}, Children: []*datatypes.Node{l, r}}
}
func verifOr(l, r *datatypes.Node) *datatypes.Node {
	return &datatypes.Node{NodeType: datatypes.Node_TypeLogicalExpression, Value: &datatypes.Node_Logical_{Logical: datatypes.Node_LogicalOr}, Children: []*datatypes.Node{l, r}}
}

const (
	verifEQ = datatypes.Node_ComparisonEqual
	verifNE = datatypes.Node_ComparisonNotEqual
)

// symbolic string of n arbitrary bytes, none of them NUL/0xff (the reserved tag keys) or newline
func verifStr(name string, n int) string {
	s := vrt.String(name, n)
	for i := 0; i < n; i++ {
		vrt.Assume(vrt.And(s[i] != 0, s[i] != 0xff, s[i] != '\n'))
	}
	// a series key cannot carry a trailing backslash in a name or tag value
	vrt.Assume(s[n-1] != '\\')
	return s
}

// VerifC16_Matches: the compiled predicate matches the series key exactly when the predicate is true of
// the series' measurement and tags. The series has measurement name M (stored as the \x00 tag, as the
// storage engine does), a tag host=H and no tag "zone"; names, values and literals range over ALL byte
// values (escaped spaces, commas, equals signs, backslashes included). Inequality is only applied to
// tags the series carries (for an absent tag both readings of != are defensible; see DESIGN.md).
func VerifC16_Matches() {
	n := vrt.Bound("LEN", 1)
	M := verifStr("m", vrt.Choose("mlen", 1, n))
	H := verifStr("h", vrt.Choose("hlen", 1, n))
	L1 := verifStr("l1", vrt.Choose("l1len", 1, n))
	L2 := verifStr("l2", vrt.Choose("l2len", 1, n))
	tags := models.NewTags(map[string]string{"\x00": M, "host": H, "\xff": "f"})
	key := models.MakeKey([]byte("ob"), tags)
	key = append(key, keyFieldSeparatorBytes...)
	key = append(key, 'f')

	hostEq1, hostEq2 := H == L1, H == L2
	mEq1, mEq2 := M == L1, M == L2
	var root *datatypes.Node
	var want bool
	switch vrt.Choose("shape", 0, 11) {
	case 0:
		root, want = verifCmp(verifEQ, verifTagRef("host"), verifLit(L1)), hostEq1
	case 1:
		root, want = verifCmp(verifEQ, verifTagRef("\x00"), verifLit(L1)), mEq1
	case 2:
		root, want = verifCmp(verifNE, verifTagRef("host"), verifLit(L1)), !hostEq1
	case 3:
		root, want = verifCmp(verifNE, verifTagRef("\x00"), verifLit(L1)), !mEq1
	case 4:
		root = verifAnd(verifCmp(verifEQ, verifTagRef("host"), verifLit(L1)), verifCmp(verifEQ, verifTagRef("\x00"), verifLit(L2)))
		want = vrt.And(hostEq1, mEq2)
	case 5:
		root = verifOr(verifCmp(verifEQ, verifTagRef("host"), verifLit(L1)), verifCmp(verifEQ, verifTagRef("\x00"), verifLit(L2)))
		want = vrt.Or(hostEq1, mEq2)
	case 6: // absent tag on the left of OR
		root = verifOr(verifCmp(verifEQ, verifTagRef("zone"), verifLit(L1)), verifCmp(verifEQ, verifTagRef("host"), verifLit(L2)))
		want = hostEq2
	case 7: // absent tag on the right of OR
		root = verifOr(verifCmp(verifEQ, verifTagRef("host"), verifLit(L1)), verifCmp(verifEQ, verifTagRef("zone"), verifLit(L2)))
		want = hostEq1
	case 8: // absent tag inside AND
		root = verifAnd(verifCmp(verifEQ, verifTagRef("host"), verifLit(L1)), verifCmp(verifEQ, verifTagRef("zone"), verifLit(L2)))
		want = false
	case 9:
		root = verifAnd(verifOr(verifCmp(verifEQ, verifTagRef("zone"), verifLit(L1)), verifCmp(verifNE, verifTagRef("host"), verifLit(L1))),
			verifCmp(verifEQ, verifTagRef("\x00"), verifLit(L2)))
		want = vrt.And(!hostEq1, mEq2)
	case 10:
		root = verifOr(verifAnd(verifCmp(verifEQ, verifTagRef("host"), verifLit(L1)), verifCmp(verifNE, verifTagRef("\x00"), verifLit(L2))),
			verifCmp(verifEQ, verifTagRef("host"), verifLit(L2)))
		want = vrt.Or(vrt.And(hostEq1, !mEq2), hostEq2)
	case 11: // tag compared with tag
		root, want = verifCmp(verifEQ, verifTagRef("host"), verifTagRef("\x00")), H == M
	}
	p, err := NewProtobufPredicate(&datatypes.Predicate{Root: root})
	vrt.Assert(err == nil, "predicate: compiles")
	if err != nil {
		return
	}
	got := p.Matches(key)
	vrt.Assert(got == want, "predicate: matches exactly when true of the series")
	// a second evaluation (state reset) and a clone agree
	vrt.Assert(p.Matches(key) == got, "predicate: re-evaluation agrees")
	vrt.Reach("end")
}
