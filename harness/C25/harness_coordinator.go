package coordinator

import (
	"context"
	"errors"
	"time"

	vrt "github.com/influxdata/influxdb/v2/internal/zzverifrt"
	"github.com/influxdata/influxdb/v2/kit/platform"
	"github.com/influxdata/influxdb/v2/task/backend/middleware"
	"github.com/influxdata/influxdb/v2/task/backend/scheduler"
	"github.com/influxdata/influxdb/v2/task/taskmodel"
	"go.uber.org/zap"
)

var verifCrons = []string{"* * * * *", "*/5 * * * *"}

// in-memory task store standing in for the kv task service (only what the coordinating service calls)
type verifStore struct {
	taskmodel.TaskService
	tasks  map[platform.ID]*taskmodel.Task
	nextID platform.ID
}

func (s *verifStore) FindTaskByID(ctx context.Context, id platform.ID) (*taskmodel.Task, error) {
	t, ok := s.tasks[id]
	if !ok {
		return nil, taskmodel.ErrTaskNotFound
	}
	c := *t
	return &c, nil
}

func (s *verifStore) CreateTask(ctx context.Context, tc taskmodel.TaskCreate) (*taskmodel.Task, error) {
	s.nextID++
	st := tc.Status
	if st == "" {
		st = string(taskmodel.TaskActive)
	}
	t := &taskmodel.Task{ID: s.nextID, Status: st, Cron: tc.Flux} // harness convention: Flux carries the cron spec
	s.tasks[t.ID] = t
	c := *t
	return &c, nil
}

func (s *verifStore) UpdateTask(ctx context.Context, id platform.ID, upd taskmodel.TaskUpdate) (*taskmodel.Task, error) {
	t, ok := s.tasks[id]
	if !ok {
		return nil, taskmodel.ErrTaskNotFound
	}
	if upd.Status != nil {
		t.Status = *upd.Status
	}
	if upd.Flux != nil {
		t.Cron = *upd.Flux
	}
	if off, ok := upd.Metadata["verif_offset"]; ok { // harness convention: the new offset option
		t.Offset = off.(time.Duration)
	}
	c := *t
	return &c, nil
}

func (s *verifStore) DeleteTask(ctx context.Context, id platform.ID) error {
	if _, ok := s.tasks[id]; !ok {
		return taskmodel.ErrTaskNotFound
	}
	delete(s.tasks, id)
	return nil
}

// recording scheduler: what would run, with which schedule
type verifSched struct {
	cron   map[scheduler.ID]string
	offset map[scheduler.ID]time.Duration
}

func (s *verifSched) Schedule(t scheduler.Schedulable) error {
	s.cron[t.ID()] = t.(SchedulableTask).Task.EffectiveCron()
	s.offset[t.ID()] = t.Offset()
	return nil
}

func (s *verifSched) Release(id scheduler.ID) error {
	if _, ok := s.cron[id]; !ok {
		return taskmodel.ErrTaskNotClaimed
	}
	delete(s.cron, id)
	return nil
}

// verifNewSchedule replaces scheduler.NewSchedule (cron-library parsing) by contract: every spec in
// verifCrons is valid, the schedule value itself is not inspected by the coordinator.
func verifNewSchedule(spec string, ts time.Time) (scheduler.Schedule, time.Time, error) {
	if spec == "" {
		return scheduler.Schedule{}, ts, errors.New("empty schedule")
	}
	return scheduler.Schedule{}, ts, nil
}

func verifInvariant(st *verifStore, sc *verifSched, label string) {
	for id := platform.ID(1); id <= 3; id++ {
		t, exists := st.tasks[id]
		cr, scheduled := sc.cron[scheduler.ID(id)]
		want := exists && t.Status == string(taskmodel.TaskActive)
		vrt.Assert(scheduled == want, label+": scheduled exactly when the task exists and is active")
		if scheduled && want {
			vrt.Assert(cr == t.Cron, label+": scheduled with the task's latest schedule")
			vrt.Assert(sc.offset[scheduler.ID(id)] == t.Offset, label+": scheduled with the task's latest offset")
		}
	}
}

// VerifC25_Step: one inductive step. Pre-state: up to two existing tasks with arbitrary status and
// schedule, scheduler state satisfying the invariant. One arbitrary operation through the coordinating
// task service (create with either status, update status and/or schedule, delete). Post: invariant.
func VerifC25_Step() {
	st := &verifStore{tasks: map[platform.ID]*taskmodel.Task{}}
	sc := &verifSched{cron: map[scheduler.ID]string{}, offset: map[scheduler.ID]time.Duration{}}
	n := vrt.Choose("existing", 0, 2)
	for i := 1; i <= n; i++ {
		status := string(taskmodel.TaskActive)
		if vrt.Bool(vrt.N("pre_inactive", i)) {
			status = string(taskmodel.TaskInactive)
		}
		cron := verifCrons[vrt.Choose(vrt.N("pre_cron", i), 0, 1)]
		off := time.Duration(vrt.Int64(vrt.N("pre_offset", i)))
		st.tasks[platform.ID(i)] = &taskmodel.Task{ID: platform.ID(i), Status: status, Cron: cron, Offset: off}
		if status == string(taskmodel.TaskActive) {
			sc.cron[scheduler.ID(i)] = cron
			sc.offset[scheduler.ID(i)] = off
		}
	}
	st.nextID = platform.ID(n)
	svc := middleware.New(st, NewCoordinator(zap.NewNop(), sc, nil))
	ctx := context.Background()
	verifInvariant(st, sc, "pre")

	switch vrt.Choose("op", 0, 2) {
	case 0: // create
		status := ""
		switch vrt.Choose("create_status", 0, 2) {
		case 1:
			status = string(taskmodel.TaskActive)
		case 2:
			status = string(taskmodel.TaskInactive)
		}
		_, err := svc.CreateTask(ctx, taskmodel.TaskCreate{Status: status, Flux: verifCrons[vrt.Choose("create_cron", 0, 1)]})
		vrt.Assert(err == nil, "create: succeeds")
		vrt.Reach("create")
	case 1: // update
		if n == 0 {
			return
		}
		id := platform.ID(vrt.Choose("upd_id", 1, n))
		var upd taskmodel.TaskUpdate
		switch vrt.Choose("upd_status", 0, 2) {
		case 1:
			s := string(taskmodel.TaskActive)
			upd.Status = &s
		case 2:
			s := string(taskmodel.TaskInactive)
			upd.Status = &s
		}
		if vrt.Choose("upd_sched", 0, 1) == 1 {
			c := verifCrons[vrt.Choose("upd_cron", 0, 1)]
			upd.Flux = &c
		}
		if vrt.Choose("upd_offset", 0, 1) == 1 {
			upd.Metadata = map[string]interface{}{"verif_offset": time.Duration(vrt.Int64("new_offset"))}
		}
		_, err := svc.UpdateTask(ctx, id, upd)
		vrt.Assert(err == nil, "update: succeeds")
		vrt.Reach("update")
	case 2: // delete
		if n == 0 {
			return
		}
		id := platform.ID(vrt.Choose("del_id", 1, n))
		err := svc.DeleteTask(ctx, id)
		vrt.Assert(err == nil, "delete: succeeds")
		vrt.Reach("delete")
	}
	verifInvariant(st, sc, "post")
	vrt.Reach("end")
}
