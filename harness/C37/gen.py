#!/usr/bin/env python3
# generates the per-type harness files of C37 from the templates
import os
d=os.path.dirname(os.path.abspath(__file__))
types=[("Float","float64",'vrt.Float64(vrt.N(name+"_v", i))',"math.Float64bits(a) == math.Float64bits(b)"),
       ("Integer","int64",'vrt.Int64(vrt.N(name+"_v", i))',"a == b"),
       ("Unsigned","uint64",'vrt.Uint64(vrt.N(name+"_v", i))',"a == b"),
       ("String","string",'vrt.String(vrt.N(name+"_v", i), 1)',"a == b"),
       ("Boolean","bool",'vrt.Bool(vrt.N(name+"_v", i))',"a == b")]
for tmpl,out in (("cursors.tmpl","harness_cursors_%s.go"),("tsm1.tmpl","harness_tsm1_%s.go")):
    p=os.path.join(d,tmpl)
    if not os.path.exists(p): continue
    src=open(p).read()
    for T,VT,VSYM,VEQ in types:
        s=src.replace("@T@",T).replace("@VT@",VT).replace("@VSYM@",VSYM).replace("@VEQ@",VEQ)
        open(os.path.join(d,out%T.lower()),"w").write(s)
