package cursors

import (
	vrt "github.com/influxdata/influxdb/v2/internal/zzverifrt"
)

// symbolic sorted, deduplicated integer array of length n
func verifIntArr(name string, n int) *IntegerArray {
	a := NewIntegerArrayLen(n)
	for i := 0; i < n; i++ {
		a.Timestamps[i] = vrt.Int64(vrt.N(name+"_t", i))
		a.Values[i] = vrt.Int64(vrt.N(name+"_v", i))
		if i > 0 {
			vrt.Assume(a.Timestamps[i-1] < a.Timestamps[i])
		}
	}
	return a
}

// VerifC37_IntegerExclude: Exclude(min,max) keeps exactly the points outside [min,max], in order.
func VerifC37_IntegerExclude() {
	n := vrt.Choose("n", 0, vrt.Bound("N", 3))
	a := verifIntArr("a", n)
	ts := append([]int64(nil), a.Timestamps...)
	vs := append([]int64(nil), a.Values...)
	min, max := vrt.Int64("min"), vrt.Int64("max")
	a.Exclude(min, max)
	// model
	k := 0
	okAll := true
	for i := 0; i < n; i++ {
		in := vrt.And(ts[i] >= min, ts[i] <= max)
		_ = in
	}
	_ = okAll
	_ = k
	// every surviving element is outside the range, and survivors are exactly the outside ones in order:
	// count outside elements
	cnt := 0
	for i := 0; i < n; i++ {
		if vrt.Or(ts[i] < min, ts[i] > max) {
			vrt.Assert(cnt < a.Len(), "exclude: fewer survivors than expected")
			vrt.Assert(vrt.And(a.Timestamps[cnt] == ts[i], a.Values[cnt] == vs[i]), "exclude: survivor mismatch")
			cnt++
		}
	}
	vrt.Assert(a.Len() == cnt, "exclude: length")
	vrt.Assert(len(a.Values) == len(a.Timestamps), "exclude: parallel arrays")
	vrt.Reach("end")
}
