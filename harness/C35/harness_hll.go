package hll

import (
	"math/bits"

	vrt "github.com/influxdata/influxdb/v2/internal/zzverifrt"
)

const verifP = 4 // precision of the harness sketches: 16 registers (stated bound)

func verifDense(name string) *Plus {
	h, err := NewPlus(verifP)
	if err != nil {
		panic(err)
	}
	h.toNormal()
	for i := range h.denseList {
		h.denseList[i] = vrt.Byte(vrt.N(name, i))
		vrt.Assume(h.denseList[i] <= 64-verifP+1)
	}
	return h
}

func verifSameRegs(a, b *Plus) bool {
	return vrt.And(len(a.denseList) == len(b.denseList),
		vrt.All(len(a.denseList), func(i int) bool { return a.denseList[i] == b.denseList[i] }))
}

func verifMerged(a, b *Plus) *Plus {
	c := a.Clone().(*Plus)
	if err := c.Merge(b); err != nil {
		panic(err)
	}
	return c
}

// VerifC35_MergeAlgebra: on arbitrary register states, Merge is commutative, associative, idempotent,
// and takes the register-wise maximum.
func VerifC35_MergeAlgebra() {
	a, b, c := verifDense("a"), verifDense("b"), verifDense("c")
	ab, ba := verifMerged(a, b), verifMerged(b, a)
	vrt.Assert(verifSameRegs(ab, ba), "merge: commutative")
	vrt.Assert(verifSameRegs(verifMerged(ab, c), verifMerged(a, verifMerged(b, c))), "merge: associative")
	vrt.Assert(verifSameRegs(verifMerged(a, a), a), "merge: idempotent")
	vrt.Assert(vrt.All(16, func(i int) bool {
		m := a.denseList[i]
		if b.denseList[i] > m {
			m = b.denseList[i]
		}
		return ab.denseList[i] == m
	}), "merge: register-wise maximum")
	vrt.Reach("end")
}

// VerifC35_DenseMarshal: marshal then unmarshal of a dense sketch preserves precision and all registers.
func VerifC35_DenseMarshal() {
	a := verifDense("a")
	data, err := a.MarshalBinary()
	vrt.Assert(err == nil, "marshal: succeeds")
	var b Plus
	err = b.UnmarshalBinary(data)
	vrt.Assert(err == nil, "unmarshal: succeeds")
	vrt.Assert(vrt.And(b.p == a.p, !b.sparse), "unmarshal: same precision, dense")
	vrt.Assert(verifSameRegs(a, &b), "unmarshal: identical registers")
	vrt.Reach("end")
}

// reference: register index and rho of a 64-bit hash at precision p
func verifIndexRho(x uint64) (uint32, uint8) {
	i := uint32(x >> (64 - verifP))
	w := x<<verifP | 1<<(verifP-1)
	return i, uint8(bits.LeadingZeros64(w)) + 1
}

// VerifC35_DenseAdd: adding an arbitrary hash raises exactly its register to at least rho, nothing else changes.
func VerifC35_DenseAdd() {
	a := verifDense("a")
	before := append([]uint8(nil), a.denseList...)
	x := vrt.Uint64("hash")
	a.hash = func([]byte) uint64 { return x }
	a.Add([]byte("k"))
	wi, wr := verifIndexRho(x)
	vrt.Assert(vrt.All(16, func(i int) bool {
		want := before[i]
		isReg := uint32(i) == wi
		nv := vrt.Ite(vrt.And(isReg, wr > want), wr, want)
		return a.denseList[i] == nv
	}), "add: only the hashed register is raised, to max(old, rho)")
	vrt.Reach("end")
}

// VerifC35_EncodeDecodeHash: the sparse encoding of a hash decodes to the same (register, rho)
// that the dense representation derives from the hash directly.
func VerifC35_EncodeDecodeHash() {
	h, _ := NewPlus(verifP)
	x := vrt.Uint64("hash")
	k := h.encodeHash(x)
	gi, gr := h.decodeHash(k)
	wi, wr := verifIndexRho(x)
	vrt.Assert(gi == wi, "sparse encoding: same register index as dense")
	vrt.Assert(gr == wr, "sparse encoding: same rho as dense")
	vrt.Reach("end")
}

// VerifC35_SparseToDense: a sparse sketch holding up to K arbitrary hashes converts to the same registers
// as a dense sketch fed the same hashes; marshal/unmarshal of the sparse sketch preserves that.
func VerifC35_SparseToDense() {
	K := vrt.Bound("K", 2)
	sp, _ := NewPlus(verifP)
	de, _ := NewPlus(verifP)
	de.toNormal()
	n := 0
	xs := make([]uint64, K)
	sp.hash = func([]byte) uint64 { return xs[n] }
	de.hash = func([]byte) uint64 { return xs[n] }
	for n = 0; n < K; n++ {
		xs[n] = vrt.Uint64(vrt.N("hash", n))
		sp.Add([]byte("k"))
		de.Add([]byte("k"))
	}
	vrt.Assert(sp.sparse, "sparse: still sparse after K adds")
	data, err := sp.MarshalBinary()
	vrt.Assert(err == nil, "sparse marshal: succeeds")
	var back Plus
	err = back.UnmarshalBinary(data)
	vrt.Assert(err == nil, "sparse unmarshal: succeeds")
	vrt.Assert(back.sparse, "sparse unmarshal: still sparse")
	vrt.Assert(vrt.And(back.sparseList.count == sp.sparseList.count, back.sparseList.last == sp.sparseList.last,
		len(back.sparseList.b) == len(sp.sparseList.b)), "sparse unmarshal: list header preserved")
	back.toNormal()
	sp.toNormal()
	vrt.Assert(verifSameRegs(sp, de), "sparse->dense: same registers as the dense sketch")
	vrt.Assert(verifSameRegs(&back, de), "sparse marshal round trip: same registers")
	vrt.Reach("end")
}

// VerifC35_ListMarshal: the sparse list's header (count, last) and bytes survive marshal/unmarshal for
// every 32-bit count and last value.
func VerifC35_ListMarshal() {
	n := vrt.Choose("n", 0, 3)
	v := &compressedList{count: vrt.Uint32("count"), last: vrt.Uint32("last"), b: variableLengthList(vrt.Bytes("b", n))}
	data, err := v.MarshalBinary()
	vrt.Assert(err == nil, "list marshal: succeeds")
	var w compressedList
	err = w.UnmarshalBinary(data)
	vrt.Assert(err == nil, "list unmarshal: succeeds")
	vrt.Assert(w.count == v.count, "list unmarshal: count preserved")
	vrt.Assert(w.last == v.last, "list unmarshal: last preserved")
	vrt.Assert(len(w.b) == n, "list unmarshal: length preserved")
	if len(w.b) == n {
		vrt.Assert(vrt.All(n, func(i int) bool { return w.b[i] == v.b[i] }), "list unmarshal: bytes preserved")
	}
	vrt.Reach("end")
}

// VerifC35_MergeSparseIntoDense: at precision 7 (128 registers, so that one added key stays in the
// sparse sketch's temporary set), a sparse sketch that received one arbitrary hash and was never
// flushed, merged with an arbitrary dense sketch in either direction, has exactly the register-wise
// maximum of the dense registers and the registers the hash defines.
func VerifC35_MergeSparseIntoDense() {
	const p = 7
	mk := func() *Plus {
		h, err := NewPlus(p)
		if err != nil {
			panic(err)
		}
		return h
	}
	x := vrt.Uint64("hash")
	small := mk()
	small.hash = func([]byte) uint64 { return x }
	small.Add([]byte("k"))
	vrt.Assert(small.sparse, "the small sketch is still sparse")
	ref := mk() // the same key in a dense sketch
	ref.toNormal()
	ref.hash = small.hash
	ref.Add([]byte("k"))
	big := mk()
	big.toNormal()
	for i := range big.denseList {
		big.denseList[i] = vrt.Byte(vrt.N("b", i))
		vrt.Assume(big.denseList[i] <= 64-p+1)
	}
	want := func(i int) uint8 {
		return vrt.Ite(ref.denseList[i] > big.denseList[i], ref.denseList[i], big.denseList[i])
	}
	into := small.Clone().(*Plus)
	vrt.Assert(into.Merge(big) == nil, "sparse.Merge(dense) succeeds")
	if into.sparse {
		into.toNormal()
	}
	other := big.Clone().(*Plus)
	vrt.Assert(other.Merge(small) == nil, "dense.Merge(sparse) succeeds")
	vrt.Assert(vrt.All(len(big.denseList), func(i int) bool { return into.denseList[i] == want(i) }), "sparse.Merge(dense): register-wise maximum, the sparse sketch's key included")
	vrt.Assert(vrt.All(len(big.denseList), func(i int) bool { return other.denseList[i] == want(i) }), "dense.Merge(sparse): register-wise maximum")
	vrt.Reach("end")
}
