package hll

import (
	vrt "github.com/influxdata/influxdb/v2/internal/zzverifrt"
)

// The sparse estimate is linearCount(mp, v), a floating-point function (m·ln(m/v)) of the number v of
// empty sparse registers. The float formula stays outside the claim; the stub records the integer
// argument the real Count() passes, so "same estimate" is decided as "same v".
var verifLinearV []uint32

func verifLinearCount(h *Plus, m uint32, v uint32) float64 {
	verifLinearV = append(verifLinearV, v)
	return 0
}

// VerifC35_SparseCountArgument: at precision 7 (a sparse sketch flushes its temporary set at two keys),
// a sketch that received hashes x0, x1 and then x0 again estimates the same as a sketch that received
// x0, x1 only (adding a present key changes nothing), the estimate is not changed by an earlier Count()
// (repeatable), and marshal/unmarshal preserves it.
func VerifC35_SparseCountArgument() {
	const p = 7
	xs := []uint64{vrt.Uint64("hash0"), vrt.Uint64("hash1")}
	rep := vrt.Choose("repeat", 0, 1)
	seq := []uint64{xs[0], xs[1], xs[rep]}
	n := 0
	a, _ := NewPlus(p)
	a.hash = func([]byte) uint64 { return seq[n] }
	for n = 0; n < 3; n++ {
		a.Add([]byte("k"))
	}
	b, _ := NewPlus(p)
	b.hash = func([]byte) uint64 { return seq[n] }
	for n = 0; n < 2; n++ {
		b.Add([]byte("k"))
	}
	vrt.Assert(vrt.And(a.sparse, b.sparse), "both sketches are still sparse")
	verifLinearV = nil
	a.Count() // before anything else flushes a's temporary set
	b.Count()
	a.Count()
	data, err := a.MarshalBinary()
	vrt.Assert(err == nil, "marshal succeeds")
	var back Plus
	vrt.Assert(back.UnmarshalBinary(data) == nil, "unmarshal succeeds")
	back.Count()
	vrt.Assert(len(verifLinearV) == 4, "every sparse Count() goes through linearCount")
	if len(verifLinearV) == 4 {
		vrt.Assert(verifLinearV[0] == verifLinearV[1], "count: adding a key that is already present does not change the estimate")
		vrt.Assert(verifLinearV[0] == verifLinearV[2], "count: the estimate is repeatable")
		vrt.Assert(verifLinearV[0] == verifLinearV[3], "count: marshal/unmarshal preserves the estimate")
	}
	vrt.Reach("end")
}
