package tsm1

import (
	"context"
	"time"

	vrt "github.com/influxdata/influxdb/v2/internal/zzverifrt"
	"github.com/influxdata/influxdb/v2/models"
	"github.com/prometheus/client_golang/prometheus"
	"go.uber.org/zap"
	"go.uber.org/zap/zapcore"
)

type verifObserver struct{}

func (verifObserver) Observe(float64) {}

type verifObserverVec struct{ prometheus.ObserverVec }

func (verifObserverVec) With(prometheus.Labels) prometheus.Observer { return verifObserver{} }

func verifSnapNewOperation(ctx context.Context, log *zap.Logger, msg, name string, fields ...zapcore.Field) (*zap.Logger, func()) {
	return log, func() {}
}

// what the compactor would have written to TSM files: the content of every snapshot handed to it
type verifFlushedPoint struct {
	key  string
	t, v int64
}

var verifFlushed []verifFlushedPoint

// stand-ins for the two steps of Engine.writeSnapshotAndCommit that touch files: the compactor "writes"
// the snapshot (its content is recorded), the file store "installs" the file
func verifCompactorWriteSnapshot(c *Compactor, cache *Cache, logger *zap.Logger) ([]string, error) {
	_ = cache.store.applySerial(func(k []byte, e *entry) error {
		e.mu.RLock()
		for _, v := range e.values {
			verifFlushed = append(verifFlushed, verifFlushedPoint{string(k), v.UnixNano(), v.Value().(int64)})
		}
		e.mu.RUnlock()
		return nil
	})
	return []string{"000000001-000000001.tsm"}, nil
}
func verifFSReplace(f *FileStore, oldFiles, newFiles []string) error { return nil }

func verifWasFlushed(key string, t, v int64) bool {
	r := false
	for _, p := range verifFlushed {
		if p.key == key {
			r = vrt.Or(r, vrt.And(p.t == t, p.v == v))
		}
	}
	return r
}

// VerifC01_WriteVsSnapshot: a point is written through the real Engine.WritePoints while the real
// Engine.WriteSnapshot (doWriteSnapshot, Cache.Snapshot, Deduplicate, writeSnapshotAndCommit,
// ClearSnapshot) flushes the cache, which already holds an earlier point; the compactor's file writing and
// the file store's Replace are stand-ins that record what they are given. Every schedule with up to
// PREEMPT pre-emptions at the mutex/atomic operations of tsm1 is explored. At the end, and again after one
// more (sequential) WriteSnapshot, every acknowledged point is in the cache or in a written snapshot; after
// the final flush all of them are in written snapshots and the cache is empty.
func VerifC01_WriteVsSnapshot() {
	verifFlushed = nil
	e := &Engine{Cache: verifNewCache(0), FileStore: &FileStore{}, logger: zap.NewNop(), traceLogger: zap.NewNop(),
		Stats: &compactionMetrics{Duration: verifObserverVec{}}}
	t0, v0, t1, v1 := vrt.Int64("t0"), vrt.Int64("v0"), vrt.Int64("t1"), vrt.Int64("v1")
	vrt.Assume(t0 != t1)
	k1 := []string{"cpu,host=a", "cpu,host=b"}[vrt.Choose("second_series", 0, 1)]
	p0 := &verifEPoint{key: "cpu,host=a", t: t0, fields: []verifEField{{key: "value", v: v0}}}
	p1 := &verifEPoint{key: k1, t: t1, fields: []verifEField{{key: "value", v: v1}}}
	vrt.Assert(e.WritePoints(context.Background(), []models.Point{p0}) == nil, "first write")
	var werr, serr error
	vrt.Go(func() { werr = e.WritePoints(context.Background(), []models.Point{p1}) })
	vrt.Go(func() { serr = e.WriteSnapshot() })
	vrt.Join()
	vrt.Assert(werr == nil, "the write is acknowledged")
	vrt.Assert(serr == nil, "the snapshot is written")
	key0, key1 := string(SeriesFieldKeyBytes("cpu,host=a", "value")), string(SeriesFieldKeyBytes(k1, "value"))
	have := func(key string, t, v int64) bool {
		return vrt.Or(verifHas(e.Cache.Values([]byte(key)), t, v), verifWasFlushed(key, t, v))
	}
	vrt.Assert(have(key0, t0, v0), "the earlier point is in the cache or in a written snapshot")
	vrt.Assert(have(key1, t1, v1), "the concurrently written point is in the cache or in a written snapshot")
	vrt.Assert(e.WriteSnapshot() == nil, "final flush")
	vrt.Assert(verifWasFlushed(key0, t0, v0), "after a final flush the earlier point is in a written snapshot")
	vrt.Assert(verifWasFlushed(key1, t1, v1), "after a final flush the concurrently written point is in a written snapshot")
	vrt.Assert(len(e.Cache.Values([]byte(key0))) == 0 && len(e.Cache.Values([]byte(key1))) == 0, "after a final flush the cache holds nothing")
	vrt.Assert(e.Cache.Size() == 0, "after a final flush the cache size is zero")
	vrt.Reach("end")
}

func verifSinceZero(time.Time) time.Duration { return 0 }
