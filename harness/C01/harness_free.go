package tsm1

import (
	"context"

	vrt "github.com/influxdata/influxdb/v2/internal/zzverifrt"
	"github.com/influxdata/influxdb/v2/models"
)

// VerifC01_WriteVsFree: a point is written through the real Engine.WritePoints while the store's idle
// monitor frees the resources of the (so far empty, hence idle) shard: the monitor's test "cache size is
// zero" followed by Engine.Free, as Store.monitorShards -> Shard.IsIdle / Shard.Free do. Every schedule with
// up to PREEMPT pre-emptions at the mutex/atomic operations of package tsm1 is explored. An acknowledged
// write is readable afterwards.
func VerifC01_WriteVsFree() {
	e := &Engine{Cache: verifNewCache(0), FileStore: &FileStore{}}
	t, v := vrt.Int64("t"), vrt.Int64("v")
	p := &verifEPoint{key: "cpu,host=a", t: t, fields: []verifEField{{key: "value", v: v}}}
	var werr error
	wrote := false
	vrt.Go(func() {
		werr = e.WritePoints(context.Background(), []models.Point{p})
		wrote = true
	})
	vrt.Go(func() {
		if e.Cache.Size() == 0 { // the cache part of Engine.IsIdle
			vrt.Assert(e.Free() == nil, "Free succeeds")
		}
	})
	vrt.Join()
	vrt.Assert(wrote && werr == nil, "the write is acknowledged")
	vals := e.Cache.Values(SeriesFieldKeyBytes("cpu,host=a", "value"))
	vrt.Assert(len(vals) == 1, "an acknowledged write is readable after the idle monitor ran")
	if len(vals) == 1 {
		vrt.Assert(vrt.And(vals[0].UnixNano() == t, vals[0].Value().(int64) == v), "the value read is the value written")
	}
	vrt.Reach("end")
}
