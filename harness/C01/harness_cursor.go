package tsm1

import (
	"context"

	vrt "github.com/influxdata/influxdb/v2/internal/zzverifrt"
	"github.com/influxdata/influxdb/v2/tsdb"
)

// VerifC01_ArrayCursor: the engine's array cursor over (cache values, TSM key cursor): for arbitrary
// cache contents (newest data), arbitrary TSM files (older generations), arbitrary [seek,end] and both
// directions, repeated Next() returns exactly one value per timestamp in range — the cache's if the
// cache holds that timestamp, else the newest file's — in time order. The result buffer is made small
// (capacity R) so that the "buffer full" and "whole block fits" paths are taken with a few points.
func VerifC01_ArrayCursor() {
	F, P := vrt.Bound("F", 1), vrt.Bound("P", 2)
	C := vrt.Choose("cache_points", 0, vrt.Bound("C", 2))
	R := vrt.Choose("result_cap", 1, vrt.Bound("R", 3))
	files := verifFiles(F, 1, P, 0)
	fs := &FileStore{}
	for _, f := range files {
		fs.files = append(fs.files, f)
	}
	// cache values: sorted, deduplicated (what Cache.Values returns)
	var cvals Values
	cts := make([]int64, C)
	cvs := make([]int64, C)
	for i := 0; i < C; i++ {
		cts[i], cvs[i] = vrt.Int64(vrt.N("ct", i)), vrt.Int64(vrt.N("cv", i))
		vrt.Assume(cts[i] > -4611686018427387904)
		vrt.Assume(cts[i] < 4611686018427387904)
		if i > 0 {
			vrt.Assume(cts[i-1] < cts[i])
		}
		cvals = append(cvals, IntegerValue{unixnano: cts[i], value: cvs[i]})
	}
	seek, end := vrt.Int64("seek"), vrt.Int64("end")
	vrt.Assume(seek > -4611686018427387904)
	vrt.Assume(seek < 4611686018427387904)
	asc := vrt.Choose("ascending", 0, 1) == 1
	var ts, vs []int64
	kc := newKeyCursor(context.Background(), fs, []byte("k"), seek, asc)
	limit := F*P + C + 3
	if asc {
		vrt.Assume(seek <= end)
		c := &integerArrayAscendingCursor{res: tsdb.NewIntegerArrayLen(R)}
		c.tsm.buf = tsdb.NewIntegerArrayLen(tsdb.DefaultMaxPointsPerBlock)
		vrt.Assert(c.reset(seek, end, cvals, kc) == nil, "reset: ok")
		for i := 0; i < limit; i++ {
			a := c.Next()
			if a.Len() == 0 {
				break
			}
			ts = append(ts, a.Timestamps...)
			vs = append(vs, a.Values...)
		}
		c.Close()
	} else {
		vrt.Assume(end <= seek)
		c := &integerArrayDescendingCursor{res: tsdb.NewIntegerArrayLen(R)}
		c.tsm.buf = tsdb.NewIntegerArrayLen(tsdb.DefaultMaxPointsPerBlock)
		vrt.Assert(c.reset(seek, end, cvals, kc) == nil, "reset: ok")
		for i := 0; i < limit; i++ {
			a := c.Next()
			if a.Len() == 0 {
				break
			}
			ts = append(ts, a.Timestamps...)
			vs = append(vs, a.Values...)
		}
		c.Close()
	}
	ps := verifAllPoints(files)
	for i := 0; i < C; i++ {
		ps = append(ps, verifPoint{ts: cts[i], v: cvs[i], file: F, live: true}) // the cache is newer than every file
	}
	inRange := func(x int64) bool { return vrt.And(x >= seek, x <= end) }
	if !asc {
		inRange = func(x int64) bool { return vrt.And(x <= seek, x >= end) }
	}
	verifCheckOutput(ps, inRange, ts, vs, asc, "cursor")
	vrt.Reach("end")
}
