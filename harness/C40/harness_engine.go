package tsm1

import (
	"context"
	"time"

	vrt "github.com/influxdata/influxdb/v2/internal/zzverifrt"
	"github.com/influxdata/influxdb/v2/models"
)

type verifEField struct {
	key string
	v   int64
}
type verifEPoint struct {
	models.Point
	key    string
	t      int64
	fields []verifEField
}

func (p *verifEPoint) Key() []byte     { return []byte(p.key) }
func (p *verifEPoint) Time() time.Time { return time.Unix(0, p.t) }
func (p *verifEPoint) String() string  { return p.key }
func (p *verifEPoint) FieldIterator() models.FieldIterator {
	return &verifEIter{p: p, i: -1}
}

type verifEIter struct {
	models.FieldIterator
	p *verifEPoint
	i int
}

func (it *verifEIter) Next() bool                   { it.i++; return it.i < len(it.p.fields) }
func (it *verifEIter) FieldKey() []byte             { return []byte(it.p.fields[it.i].key) }
func (it *verifEIter) Type() models.FieldType       { return models.Integer }
func (it *verifEIter) IntegerValue() (int64, error) { return it.p.fields[it.i].v, nil }
func (it *verifEIter) Reset()                       { it.i = -1 }

// VerifC40_EngineWritePoints: the points the shard hands to the engine after validation (each with one
// to three fields out of {value, time, other}, symbolic timestamps and values): every field except one
// named "time" (which the shard reports as stripped) is stored under <series>#!~#<field> with the
// point's timestamp and value, and nothing is stored under <series>#!~#time.
func VerifC40_EngineWritePoints() {
	N := vrt.Bound("N", 2)
	names := []string{"value", "time", "other"}
	e := &Engine{Cache: verifNewCache(0)}
	var pts []models.Point
	var all []*verifEPoint
	for i := 0; i < N; i++ {
		p := &verifEPoint{key: []string{"cpu,host=a", "cpu,host=b"}[vrt.Choose(vrt.N("series", i), 0, 1)], t: vrt.Int64(vrt.N("t", i))}
		mask := vrt.Choose(vrt.N("fields", i), 1, 7)
		for fi, n := range names {
			if mask&(1<<fi) != 0 {
				p.fields = append(p.fields, verifEField{key: n, v: vrt.Int64(vrt.N("v", i, fi))})
			}
		}
		if len(all) > 0 { // ascending timestamps keep the expected cache order simple
			vrt.Assume(all[len(all)-1].t < p.t)
		}
		all = append(all, p)
		pts = append(pts, p)
	}
	err := e.WritePoints(context.Background(), pts)
	vrt.Assert(err == nil, "engine write succeeds")
	for _, series := range []string{"cpu,host=a", "cpu,host=b"} {
		for _, n := range names {
			vals := e.Cache.Values(SeriesFieldKeyBytes(series, n))
			if n == "time" {
				vrt.Assert(len(vals) == 0, "a field named time is never stored")
				continue
			}
			var exp []verifEField // in timestamp order; key field reused to carry nothing
			var expT []int64
			for _, p := range all {
				if p.key != series {
					continue
				}
				for _, f := range p.fields {
					if f.key == n {
						exp, expT = append(exp, f), append(expT, p.t)
					}
				}
			}
			vrt.Assert(len(vals) == len(exp), "exactly the accepted field values are stored")
			for k := range exp {
				if k < len(vals) {
					vrt.Assert(vrt.And(vals[k].UnixNano() == expT[k], vals[k].Value().(int64) == exp[k].v), "every accepted field value is stored with its timestamp")
				}
			}
		}
	}
	vrt.Reach("end")
}
