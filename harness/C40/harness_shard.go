package tsdb

import (
	"github.com/influxdata/influxdb/v2/models"
	vrt "github.com/influxdata/influxdb/v2/internal/zzverifrt"
	"github.com/influxdata/influxql"
	"github.com/prometheus/client_golang/prometheus"
)

// fake engine: series creation optionally rejects one key (as the series-limit / index path does);
// field schema is a real MeasurementFields
type verifEngine struct {
	Engine
	mf       *MeasurementFields
	dropKey  []byte
	seenKeys [][]byte
}

func (e *verifEngine) CreateSeriesListIfNotExists(keys, names [][]byte, tags []models.Tags) error {
	e.seenKeys = append(e.seenKeys, keys...)
	if e.dropKey != nil {
		for _, k := range keys {
			if string(k) == string(e.dropKey) {
				return &PartialWriteError{Reason: "series rejected", Dropped: 1, DroppedKeys: [][]byte{e.dropKey}}
			}
		}
	}
	return nil
}

func (e *verifEngine) MeasurementFields(name []byte) *MeasurementFields { return e.mf }

type verifCounter struct{ prometheus.Counter }

func (verifCounter) Add(float64) {}
func (verifCounter) Inc()        {}

// point templates: what is wrong with each and which fields (name:type) it carries in order
type verifTpl struct {
	line      string
	timeTag   bool
	onlyTime  bool
	hasTimeFd bool
	fields    []string // non-time field names in order
	types     []influxql.DataType
}

var verifTpls = []verifTpl{
	{line: "cpu,host=a value=1 1", fields: []string{"value"}, types: []influxql.DataType{influxql.Float}},
	{line: "cpu,host=b time=5,value=2 2", hasTimeFd: true, fields: []string{"value"}, types: []influxql.DataType{influxql.Float}},
	{line: "cpu,host=c time=5 3", onlyTime: true, hasTimeFd: true},
	{line: "cpu,host=d value=\"s\" 4", fields: []string{"value"}, types: []influxql.DataType{influxql.String}},
	{line: "cpu,host=e a=1i,value=2i 5", fields: []string{"a", "value"}, types: []influxql.DataType{influxql.Integer, influxql.Integer}},
	{line: "cpu,host=f time=5.0,value=\"bad\" 6", hasTimeFd: true, fields: []string{"value"}, types: []influxql.DataType{influxql.String}},
	{line: "cpu,host=h value=3i,b=true 8", fields: []string{"value", "b"}, types: []influxql.DataType{influxql.Integer, influxql.Boolean}},
}

// VerifC40_ValidateSeriesAndFields: a batch of B points, each an arbitrary template, against an arbitrary
// pre-existing type of field "value" (or none): the returned points are exactly the accepted ones in
// order, Dropped counts exactly the rejected ones, and a rejected point creates no field that follows
// its conflict.
func VerifC40_ValidateSeriesAndFields() {
	B := vrt.Bound("B", 2)
	mf := NewMeasurementFields()
	pre := []influxql.DataType{influxql.Unknown, influxql.Float, influxql.Integer, influxql.String}[vrt.Choose("existing_type", 0, 3)]
	schema := map[string]influxql.DataType{}
	if pre != influxql.Unknown {
		mf.CreateFieldIfNotExists("value", pre)
		schema["value"] = pre
	}
	eng := &verifEngine{mf: mf}
	sh := &Shard{_engine: eng, enabled: true, stats: &ShardMetrics{writesDropped: verifCounter{}, fieldsCreated: verifCounter{}}}
	var pts []models.Point
	var tpls []verifTpl
	for i := 0; i < B; i++ {
		t := verifTpls[vrt.Choose(vrt.N("tpl", i), 0, len(verifTpls)-1)]
		p, err := models.ParsePointsString(t.line)
		if err != nil || len(p) != 1 {
			panic("template does not parse")
		}
		pts = append(pts, p[0])
		tpls = append(tpls, t)
	}
	dropSeries := vrt.Choose("drop_series_of", -1, B-1)
	// (a point whose only field is "time" is rejected for that reason; combining it with a series the
	// index rejects is not one of the property's rejection causes and is left out, see DESIGN.md)
	if dropSeries >= 0 && !tpls[dropSeries].timeTag && !tpls[dropSeries].onlyTime {
		eng.dropKey = pts[dropSeries].Key()
	}
	// reference
	var wantKeys []string
	wantDropped := 0
	for i, t := range tpls {
		key := string(pts[i].Key())
		switch {
		case t.timeTag, t.onlyTime:
			wantDropped++
			continue
		}
		if eng.dropKey != nil && key == string(eng.dropKey) {
			if i == dropSeries {
				wantDropped++
			}
			continue
		}
		conflict := false
		for j, f := range t.fields {
			if have, ok := schema[f]; ok {
				if have != t.types[j] {
					conflict = true
					break
				}
			} else {
				schema[f] = t.types[j] // fields before the conflict stay created (documented)
			}
		}
		if conflict {
			wantDropped++
			continue
		}
		wantKeys = append(wantKeys, key)
	}
	in := append([]models.Point(nil), pts...)
	out, _, err := sh.validateSeriesAndFields(in)
	gotDropped := 0
	switch e := err.(type) {
	case PartialWriteError:
		gotDropped = e.Dropped
	case nil:
	default:
		vrt.Assert(false, "validate: unexpected error type")
	}
	vrt.Assert(gotDropped == wantDropped, "validate: Dropped counts exactly the rejected points")
	vrt.Assert(len(out) == len(wantKeys), "validate: returns exactly the accepted points")
	if len(out) == len(wantKeys) {
		for i := range out {
			vrt.Assert(string(out[i].Key()) == wantKeys[i], "validate: accepted points in order")
		}
	}
	// the live schema equals the reference schema (no field type ever changes)
	for f, ty := range schema {
		got := mf.Field(f)
		vrt.Assert(got != nil && got.Type == ty, "schema: field has the reference type")
	}
	vrt.Assert(mf.FieldN() == len(schema), "schema: no extra fields")
	vrt.Reach("end")
}
