package toml

import (
	"errors"
	"math"
	"strconv"

	vrt "github.com/influxdata/influxdb/v2/internal/zzverifrt"
	humanize "github.com/dustin/go-humanize"
)

var _ = humanize.ParseBytes
var _ = strconv.Itoa

// The decimal-digits <-> number step is std-library code (strconv); the harness supplies the
// format/parse hooks that marshalSizeV1/unmarshalSizeV1 are parameterised with, so that the
// *number* stays symbolic while the text around it (sign-less digit placeholder + suffix) is concrete.
var verifFmtU uint64
var verifFmtI int64
var verifParseCalls int

func verifFormatU(dst []byte, v uint64, base int) []byte { verifFmtU = v; return append(dst, '7') }
func verifFormatI(dst []byte, v int64, base int) []byte  { verifFmtI = v; return append(dst, '7') }

func verifNoHumanizeU(string) (uint64, error) { panic("humanize path must not be taken") }
func verifNoHumanizeI(string) (int64, error)  { panic("humanize path must not be taken") }

func verifMultOfSuffix(text []byte) uint64 {
	switch text[len(text)-1] {
	case 'k', 'K':
		return 1 << 10
	case 'm', 'M':
		return 1 << 20
	case 'g', 'G':
		return 1 << 30
	}
	return 1
}

// VerifC34_SizeRoundTrip: marshal picks (quotient, suffix) with quotient*mult == size exactly, the
// largest whole unit, and unmarshal of that text returns the same size. All uint64.
func VerifC34_SizeRoundTrip() {
	size := vrt.Uint64("size")
	text := marshalSizeV1(SizeV1(size), verifFormatU)
	q := verifFmtU
	mult := verifMultOfSuffix(text)
	vrt.Assert(vrt.And(q == size/mult, size%mult == 0), "marshal: quotient*multiplier is exactly the size")
	wantMult := vrt.Ite(vrt.And(size >= 1<<30, size%(1<<30) == 0), uint64(1<<30),
		vrt.Ite(vrt.And(size >= 1<<20, size%(1<<20) == 0), uint64(1<<20),
			vrt.Ite(vrt.And(size >= 1<<10, size%(1<<10) == 0), uint64(1<<10), uint64(1))))
	vrt.Assert(mult == wantMult, "marshal: largest whole binary unit")
	var d SizeV1
	err := unmarshalSizeV1(&d, text, sizeV1Pattern, func(string, int, int) (uint64, error) { return q, nil }, verifNoHumanizeU)
	vrt.Assert(err == nil, "round trip: marshalled text parses")
	vrt.Assert(uint64(d) == size, "round trip: identical value")
	vrt.Reach("end")
}

// VerifC34_SSizeRoundTrip: the same for all int64 (negative values, MinInt64).
func VerifC34_SSizeRoundTrip() {
	size := vrt.Int64("size")
	text := marshalSizeV1(SSizeV1(size), verifFormatI)
	q := verifFmtI
	mult := int64(verifMultOfSuffix(text))
	vrt.Assert(vrt.And(q == size/mult, size%mult == 0), "marshal: quotient*multiplier is exactly the size")
	var d SSizeV1
	err := unmarshalSizeV1(&d, text, ssizeV1Pattern, func(string, int, int) (int64, error) { return q, nil }, verifNoHumanizeI)
	vrt.Assert(err == nil, "round trip: marshalled text parses")
	vrt.Assert(int64(d) == size, "round trip: identical value")
	vrt.Reach("end")
}

var verifSuffixes = []string{"", "k", "K", "m", "M", "g", "G"}

// VerifC34_UnmarshalOverflow: "<n><suffix>" parses iff n*mult fits uint64, to exactly n*mult; bare k/m/g are 2^10/2^20/2^30.
func VerifC34_UnmarshalOverflow() {
	n := vrt.Uint64("n")
	sfx := verifSuffixes[vrt.Choose("suffix", 0, len(verifSuffixes)-1)]
	text := []byte("7" + sfx)
	mult := verifMultOfSuffix(text)
	var d SizeV1 = 12345
	err := unmarshalSizeV1(&d, text, sizeV1Pattern, func(string, int, int) (uint64, error) { return n, nil }, verifNoHumanizeU)
	fits := n <= math.MaxUint64/mult
	vrt.Assert(vrt.Iff(err == nil, fits), "unmarshal: accepted iff n*mult fits uint64")
	if err == nil {
		vrt.Assert(vrt.And(uint64(d)/mult == n, uint64(d)%mult == 0), "unmarshal: value is n*mult, not wrapped")
	} else {
		vrt.Reach("rejected")
	}
	vrt.Reach("end")
}

// VerifC34_SUnmarshalOverflow: signed variant over all int64 n.
func VerifC34_SUnmarshalOverflow() {
	n := vrt.Int64("n")
	sfx := verifSuffixes[vrt.Choose("suffix", 0, len(verifSuffixes)-1)]
	text := []byte("7" + sfx)
	mult := int64(verifMultOfSuffix(text))
	var d SSizeV1 = 12345
	err := unmarshalSizeV1(&d, text, ssizeV1Pattern, func(string, int, int) (int64, error) { return n, nil }, verifNoHumanizeI)
	fits := vrt.And(n <= math.MaxInt64/mult, n >= math.MinInt64/mult)
	vrt.Assert(vrt.Iff(err == nil, fits), "unmarshal: accepted iff n*mult fits int64")
	if err == nil {
		vrt.Assert(vrt.And(int64(d)/mult == n, int64(d)%mult == 0), "unmarshal: value is n*mult, not wrapped")
	} else {
		vrt.Reach("rejected")
	}
	vrt.Reach("end")
}

// verifParseBytes replaces humanize.ParseBytes (third-party float parser): an arbitrary magnitude or an error.
func verifParseBytes(s string) (uint64, error) {
	if vrt.Choose("humanize_err", 0, 1) == 1 {
		return 0, errors.New("humanize: stubbed failure")
	}
	return vrt.Uint64("magnitude"), nil
}

// VerifC34_ParseBytesSigned: sign handling and int64 range check around the magnitude parser:
// accepted iff the signed value fits int64, never wrapped.
func VerifC34_ParseBytesSigned() {
	texts := []string{"5", "-5", " -5 ", "+5", " 5"}
	ti := vrt.Choose("text", 0, len(texts)-1)
	neg := ti == 1 || ti == 2
	v, err := parseBytesSigned(texts[ti])
	failed := vrt.Choose("humanize_err", 0, 1) == 1
	if failed {
		vrt.Assert(err != nil, "parseBytesSigned: parser error propagates")
		vrt.Reach("end")
		return
	}
	m := vrt.Uint64("magnitude")
	if neg {
		fits := m <= uint64(math.MaxInt64)+1
		vrt.Assert(vrt.Iff(err == nil, fits), "parseBytesSigned: negative accepted iff magnitude <= 2^63")
		if err == nil {
			vrt.Assert(vrt.And(v <= 0, uint64(-v) == m), "parseBytesSigned: negative value is -magnitude")
		}
	} else {
		fits := m <= math.MaxInt64
		vrt.Assert(vrt.Iff(err == nil, fits), "parseBytesSigned: positive accepted iff magnitude <= MaxInt64")
		if err == nil {
			vrt.Assert(vrt.And(v >= 0, uint64(v) == m), "parseBytesSigned: positive value is the magnitude")
		}
	}
	vrt.Reach("end")
}

// VerifC34_Conversions: the range-checked conversions accept exactly the representable values.
func VerifC34_Conversions() {
	u := vrt.Uint64("u")
	i := vrt.Int64("i")
	a, err := sizeToInt64(u)
	vrt.Assert(vrt.Iff(err == nil, u <= math.MaxInt64), "sizeToInt64: accepted iff representable")
	vrt.Assert(vrt.Implies(err == nil, uint64(a) == u), "sizeToInt64: value preserved")
	b, err := sizeToInt(u)
	vrt.Assert(vrt.Iff(err == nil, u <= math.MaxInt), "sizeToInt: accepted iff representable")
	vrt.Assert(vrt.Implies(err == nil, uint64(b) == u), "sizeToInt: value preserved")
	c, err := ssizeToUint64(i)
	vrt.Assert(vrt.Iff(err == nil, i >= 0), "ssizeToUint64: accepted iff non-negative")
	vrt.Assert(vrt.Implies(err == nil, int64(c) == i), "ssizeToUint64: value preserved")
	d, err := ssizeToInt(i)
	vrt.Assert(vrt.And(err == nil, int64(d) == i), "ssizeToInt: 64-bit int holds every int64")
	vrt.Assert(vrt.Implies(i < 0, negAsUint64(i) == uint64(-i)), "negAsUint64: magnitude")
	vrt.Assert(vrt.Implies(i == math.MinInt64, negAsUint64(i) == 1<<63), "negAsUint64: MinInt64")
	vrt.Reach("end")
}
