# /verif build: everything offline, from files on disk only.
GOENV = GOFLAGS=-mod=mod GOPROXY=off GOSUMDB=off GOTOOLCHAIN=local
FLUXV = v0.200.0
FLUXSRC = $(shell go env GOMODCACHE)/github.com/influxdata/flux@$(FLUXV)

.PHONY: setup symgo fluxstub clean
setup: symgo fluxstub

symgo:
	mkdir -p bin
	cd symgo && $(GOENV) go1.26.8 build -o ../bin/symgo .

# copy of the cached flux module with the libflux cgo binding replaced by a pure-Go stub
# (needed only to *natively replay* counterexamples in packages that link libflux)
fluxstub:
	@if [ ! -f .cache/fluxstub/.done ]; then \
	  rm -rf .cache/fluxstub && mkdir -p .cache && cp -r $(FLUXSRC) .cache/fluxstub && chmod -R u+w .cache/fluxstub && \
	  cd .cache/fluxstub/libflux/go/libflux && rm -f analyze.go parser.go link_dynamic.go link_static.go *_test.go && \
	  cp /verif/support/libflux_stub/libflux_stub.go.txt libflux_stub.go && touch /verif/.cache/fluxstub/.done; fi

clean:
	rm -rf bin .cache replays
