package main

// time.Time comparison methods as single terms. The std bodies are
//   ts := t.sec(); us := u.sec(); return ts > us || ts == us && t.nsec() > u.nsec()
// (after the monotonic-clock case) — pure functions of the two (wall, ext) pairs whose short-circuit
// evaluation would fork three ways per comparison. They are transcribed here branch-free, field for
// field (summarised pure callees); everything else of package time runs as real code.

import (
	"go/types"

	"golang.org/x/tools/go/ssa"
)

const (
	timeHasMonotonic   = uint64(1) << 63
	timeNsecMask       = uint64(1)<<30 - 1
	timeNsecShift      = 30
	timeWallToInternal = int64((1884*365+1884/4-1884/100+1884/400)*86400)
)

func (in *Interp) timeParts(v Value) (wall, ext *Term) {
	st := v.(Struct)
	return st[0].(*Term), st[1].(*Term)
}

func (in *Interp) timeHasMono(wall *Term) *Term {
	tb := in.tb
	return tb.Ne(tb.And(wall, tb.Const(TU64, timeHasMonotonic)), tb.Const(TU64, 0))
}

func (in *Interp) timeSec(wall, ext *Term) *Term {
	tb := in.tb
	mono := in.timeHasMono(wall)
	if mono.IsConst() && mono.V == 0 {
		return ext
	}
	// wallToInternal + int64(wall<<1>>(nsecShift+1))
	w := tb.Conv(tb.Shr(tb.Shl(wall, tb.Const(TU64, 1)), tb.Const(TU64, timeNsecShift+1)), TI64)
	return tb.Ite(mono, tb.Add(tb.Int(TI64, timeWallToInternal), w), ext)
}

func (in *Interp) timeNsec(wall *Term) *Term {
	tb := in.tb
	return tb.Conv(tb.And(wall, tb.Const(TU64, timeNsecMask)), TI32)
}

// timeCmp returns (t after u, t equal u) for the non-monotonic comparison.
func (in *Interp) timeCmp(t, u Value) (after, before, equal *Term) {
	tb := in.tb
	tw, te := in.timeParts(t)
	uw, ue := in.timeParts(u)
	ts, us := in.timeSec(tw, te), in.timeSec(uw, ue)
	tn, un := in.timeNsec(tw), in.timeNsec(uw)
	wallAfter := tb.BOr(tb.Lt(us, ts), tb.BAnd(tb.Eq(ts, us), tb.Lt(un, tn)))
	wallBefore := tb.BOr(tb.Lt(ts, us), tb.BAnd(tb.Eq(ts, us), tb.Lt(tn, un)))
	wallEqual := tb.BAnd(tb.Eq(ts, us), tb.Eq(tn, un))
	// if both have a monotonic reading the comparison is on ext
	both := tb.BAnd(in.timeHasMono(tw), in.timeHasMono(uw))
	after = tb.Ite(both, tb.Lt(ue, te), wallAfter)
	before = tb.Ite(both, tb.Lt(te, ue), wallBefore)
	equal = tb.Ite(both, tb.Eq(te, ue), wallEqual)
	return
}

func init() {
	regSimple("(time.Time).After", func(in *Interp, a []Value) Value { r, _, _ := in.timeCmp(a[0], a[1]); return r })
	regSimple("(time.Time).Before", func(in *Interp, a []Value) Value { _, r, _ := in.timeCmp(a[0], a[1]); return r })
	regSimple("(time.Time).Equal", func(in *Interp, a []Value) Value { _, _, r := in.timeCmp(a[0], a[1]); return r })
	regSimple("(time.Time).Compare", func(in *Interp, a []Value) Value {
		af, bf, _ := in.timeCmp(a[0], a[1])
		tb := in.tb
		return tb.Ite(bf, tb.Int(TI64, -1), tb.Ite(af, tb.Int(TI64, 1), tb.Int(TI64, 0)))
	})
	regSimple("(time.Time).IsZero", func(in *Interp, a []Value) Value {
		tb := in.tb
		w, e := in.timeParts(a[0])
		return tb.BAnd(tb.Eq(in.timeSec(w, e), tb.Int(TI64, 0)), tb.Eq(in.timeNsec(w), tb.Int(TI32, 0)))
	})
}

// time.NewTicker / NewTimer: the runtime timer heap is not modelled. A ticker or timer created under
// the solver never fires (its channel stays empty), i.e. less than the interval elapses during the
// analysed call; Stop/Reset are accepted. (time.After and timers whose expiry matters are unsupported.)
func init() {
	mk := func(typ string) intrinsic {
		return func(in *Interp, _ *frame, _ *ssa.Function, a []Value) (Value, bool) {
			tp := in.prog.ImportedPackage("time")
			tt := tp.Type(typ).Type()
			st := tt.Underlying().(*types.Struct)
			val := in.zero(tt).(Struct)
			for i := 0; i < st.NumFields(); i++ {
				if st.Field(i).Name() == "C" {
					val[i] = &Chan{cap: 1, elem: tp.Type("Time").Type()}
				}
			}
			cell := new(Value)
			*cell = val
			return Ptr{cell: cell}, true
		}
	}
	reg("time.NewTicker", mk("Ticker"))
	reg("time.NewTimer", mk("Timer"))
	regSimple("(*time.Ticker).Stop", func(in *Interp, a []Value) Value { return nil })
	regSimple("(*time.Ticker).Reset", func(in *Interp, a []Value) Value { return nil })
	regSimple("(*time.Timer).Stop", func(in *Interp, a []Value) Value { return in.tb.True })
	regSimple("(*time.Timer).Reset", func(in *Interp, a []Value) Value { return in.tb.True })
}
