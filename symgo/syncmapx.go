package main

// sync.Map modelled by contract: an insertion-ordered association list kept in a side table keyed by
// the receiver. (The real implementation is a lock-free hash trie over unsafe/runtime internals.)
// Sequential semantics only; Range iterates in insertion order.

import (
	"go/types"

	"golang.org/x/tools/go/ssa"
)

func (in *Interp) syncMapOf(recv Value) *Map {
	p := recv.(Ptr)
	if p.cell == nil {
		in.goPanic("runtime error: invalid memory address or nil pointer dereference")
	}
	if in.syncMaps == nil {
		in.syncMaps = map[*Value]*Map{}
	}
	m := in.syncMaps[p.cell]
	if m == nil {
		m = in.newMap(types.NewInterfaceType(nil, nil))
		in.syncMaps[p.cell] = m
	}
	return m
}

func init() {
	regSimple("(*sync.Map).Load", func(in *Interp, a []Value) Value {
		m := in.syncMapOf(a[0])
		if e := in.mapFind(m, a[1]); e != nil {
			return Tuple{e.val, in.tb.True}
		}
		return Tuple{Iface{}, in.tb.False}
	})
	regSimple("(*sync.Map).Store", func(in *Interp, a []Value) Value {
		in.mapSet(in.syncMapOf(a[0]), a[1], a[2])
		return nil
	})
	regSimple("(*sync.Map).LoadOrStore", func(in *Interp, a []Value) Value {
		m := in.syncMapOf(a[0])
		if e := in.mapFind(m, a[1]); e != nil {
			return Tuple{e.val, in.tb.True}
		}
		in.mapSet(m, a[1], a[2])
		return Tuple{a[2], in.tb.False}
	})
	regSimple("(*sync.Map).LoadAndDelete", func(in *Interp, a []Value) Value {
		m := in.syncMapOf(a[0])
		if e := in.mapFind(m, a[1]); e != nil {
			v := e.val
			in.mapDelete(m, a[1])
			return Tuple{v, in.tb.True}
		}
		return Tuple{Iface{}, in.tb.False}
	})
	regSimple("(*sync.Map).Delete", func(in *Interp, a []Value) Value {
		in.mapDelete(in.syncMapOf(a[0]), a[1])
		return nil
	})
	regSimple("(*sync.Map).Swap", func(in *Interp, a []Value) Value {
		m := in.syncMapOf(a[0])
		if e := in.mapFind(m, a[1]); e != nil {
			old := e.val
			e.val = a[2]
			return Tuple{old, in.tb.True}
		}
		in.mapSet(m, a[1], a[2])
		return Tuple{Iface{}, in.tb.False}
	})
	regSimple("(*sync.Map).Clear", func(in *Interp, a []Value) Value {
		m := in.syncMapOf(a[0])
		m.entries, m.idx, m.n = nil, map[string]*mapEntry{}, 0
		return nil
	})
	reg("(*sync.Map).Range", func(in *Interp, caller *frame, fn *ssa.Function, a []Value) (Value, bool) {
		m := in.syncMapOf(a[0])
		for i := 0; i < len(m.entries); i++ {
			e := m.entries[i]
			if e.dead {
				continue
			}
			r := in.call(caller, a[1], []Value{e.key, e.val})
			in.curFr = caller
			if !in.decide(r.(*Term)) {
				break
			}
		}
		return nil, true
	})
}
