package main

import (
	"encoding/binary"
	"math/bits"
)

// cespare/xxhash/v2 Sum64/Sum64String on concrete bytes (the assembly / unsafe string view cannot be
// interpreted). Symbolic input is reported as unsupported.
func init() {
	regSimple("github.com/cespare/xxhash/v2.Sum64", func(in *Interp, a []Value) Value {
		return in.xxhash(sliceTerms(in, a[0]))
	})
	regSimple("github.com/cespare/xxhash/v2.Sum64String", func(in *Interp, a []Value) Value {
		return in.xxhash(in.strBytes(a[0].(Str)))
	})
}

func (in *Interp) xxhash(ts []*Term) Value {
	b := make([]byte, len(ts))
	for i, t := range ts {
		if !t.IsConst() {
			in.unsupported("xxhash of symbolic bytes")
		}
		b[i] = byte(t.V)
	}
	return in.tb.Int(TU64, int64(xxh64(b)))
}

const (
	xxPrime1 uint64 = 11400714785074694791
	xxPrime2 uint64 = 14029467366897019727
	xxPrime3 uint64 = 1609587929392839161
	xxPrime4 uint64 = 9650029242287828579
	xxPrime5 uint64 = 2870177450012600261
)

func xxRound(acc, input uint64) uint64 {
	acc += input * xxPrime2
	acc = bits.RotateLeft64(acc, 31)
	acc *= xxPrime1
	return acc
}

func xxMergeRound(acc, val uint64) uint64 {
	val = xxRound(0, val)
	acc ^= val
	acc = acc*xxPrime1 + xxPrime4
	return acc
}

func xxh64(b []byte) uint64 {
	n := len(b)
	var h uint64
	if n >= 32 {
		p1, p2 := xxPrime1, xxPrime2
		v1 := p1 + p2
		v2 := p2
		v3 := uint64(0)
		v4 := -p1
		for len(b) >= 32 {
			v1 = xxRound(v1, binary.LittleEndian.Uint64(b[0:8]))
			v2 = xxRound(v2, binary.LittleEndian.Uint64(b[8:16]))
			v3 = xxRound(v3, binary.LittleEndian.Uint64(b[16:24]))
			v4 = xxRound(v4, binary.LittleEndian.Uint64(b[24:32]))
			b = b[32:]
		}
		h = bits.RotateLeft64(v1, 1) + bits.RotateLeft64(v2, 7) + bits.RotateLeft64(v3, 12) + bits.RotateLeft64(v4, 18)
		h = xxMergeRound(h, v1)
		h = xxMergeRound(h, v2)
		h = xxMergeRound(h, v3)
		h = xxMergeRound(h, v4)
	} else {
		h = xxPrime5
	}
	h += uint64(n)
	for ; len(b) >= 8; b = b[8:] {
		k1 := xxRound(0, binary.LittleEndian.Uint64(b[:8]))
		h ^= k1
		h = bits.RotateLeft64(h, 27)*xxPrime1 + xxPrime4
	}
	if len(b) >= 4 {
		h ^= uint64(binary.LittleEndian.Uint32(b[:4])) * xxPrime1
		h = bits.RotateLeft64(h, 23)*xxPrime2 + xxPrime3
		b = b[4:]
	}
	for ; len(b) > 0; b = b[1:] {
		h ^= uint64(b[0]) * xxPrime5
		h = bits.RotateLeft64(h, 11) * xxPrime1
	}
	h ^= h >> 33
	h *= xxPrime2
	h ^= h >> 29
	h *= xxPrime3
	h ^= h >> 32
	return h
}
