package main

// inBounds builds 0 <= idx < n without wrapping n into a narrow index type (a byte index into
// [256]T is always in bounds).
func (in *Interp) inBounds(idx *Term, n int) *Term {
	tb := in.tb
	if !idx.T.S {
		if idx.T.W < 64 && uint64(n) > mask(idx.T.W) {
			return tb.True
		}
		return tb.Lt(idx, tb.Const(idx.T, uint64(n)))
	}
	hi := tb.True
	if idx.T.W == 64 || int64(n) <= int64(mask(idx.T.W)>>1) {
		hi = tb.Lt(idx, tb.Const(idx.T, uint64(n)))
	}
	return tb.BAnd(tb.Le(tb.Const(idx.T, 0), idx), hi)
}
