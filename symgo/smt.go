package main

// SMT-LIB2 emission of terms (bit-vector and integer back-ends) and solver
// process management (one long-lived process per worker).

import (
	"bufio"
	"fmt"
	"io"
	"math/big"
	"math/bits"
	"os/exec"
	"strings"
	"time"
)

type Result int

const (
	Unsat Result = iota
	Sat
	Unknown
)

func (r Result) String() string { return [...]string{"unsat", "sat", "unknown"}[r] }

type SolverStats struct {
	Queries    int
	Sat        int
	Unsat      int
	Unknown    int
	Errors     int
	Restarts   int
	OneShots   int
	SolverTime time.Duration
	MaxQuery   time.Duration
}

type Solver struct {
	kind      string // "z3", "z3-new", "cvc5"
	intMode   bool
	timeoutMs int
	cmd       *exec.Cmd
	in        io.WriteCloser
	out       *bufio.Reader
	lines     chan string
	defined   map[int]bool // term ids with a define-fun in the current context
	declared  map[string]bool
	nfresh    int
	buf       strings.Builder
	Stats     SolverStats
	LastErr   string
	log       io.Writer
	dead      bool
	asserted  []*Term // assertions since the last Reset (replayed after a restart)
	tb        *TB
}

func NewSolver(kind string, intMode bool, timeoutMs int, tb *TB) (*Solver, error) {
	s := &Solver{kind: kind, intMode: intMode, timeoutMs: timeoutMs, tb: tb}
	if err := s.start(); err != nil {
		return nil, err
	}
	return s, nil
}

func (s *Solver) start() error {
	var cmd *exec.Cmd
	switch s.kind {
	case "z3":
		cmd = exec.Command("z3", "-in", "-smt2")
	case "z3-new":
		cmd = exec.Command("z3-new", "-in", "-smt2")
	case "cvc5":
		cmd = exec.Command("cvc5", "--incremental", "--produce-models", "--lang=smt2", fmt.Sprintf("--tlimit-per=%d", s.timeoutMs))
	default:
		return fmt.Errorf("unknown solver %q", s.kind)
	}
	in, err := cmd.StdinPipe()
	if err != nil {
		return err
	}
	out, err := cmd.StdoutPipe()
	if err != nil {
		return err
	}
	cmd.Stderr = cmd.Stdout
	if err := cmd.Start(); err != nil {
		return err
	}
	s.cmd, s.in, s.out = cmd, in, bufio.NewReaderSize(out, 1<<16)
	s.lines = make(chan string, 1024)
	go func(r *bufio.Reader, ch chan string) {
		for {
			l, err := r.ReadString('\n')
			if l != "" {
				ch <- strings.TrimRight(l, "\r\n")
			}
			if err != nil {
				close(ch)
				return
			}
		}
	}(s.out, s.lines)
	s.dead = false
	s.resetState()
	return nil
}

func (s *Solver) resetState() {
	s.asserted = nil
	s.defined = map[int]bool{}
	s.declared = map[string]bool{}
	s.buf.Reset()
	if s.kind != "cvc5" {
		fmt.Fprintf(&s.buf, "(set-option :timeout %d)\n", s.timeoutMs)
	} else {
		s.buf.WriteString("(set-logic ALL)\n")
	}
}

func (s *Solver) Close() {
	if s.cmd != nil && s.cmd.Process != nil {
		s.in.Close()
		s.cmd.Process.Kill()
		s.cmd.Wait()
	}
}

func (s *Solver) restart() {
	s.Close()
	s.Stats.Restarts++
	s.start()
}

// Reset clears all assertions and definitions.
func (s *Solver) Reset() {
	if s.dead {
		s.restart()
		return
	}
	if s.kind == "cvc5" {
		// cvc5 (reset) is fine but keeps options; logic must be re-set
		s.flushNoWait("(reset)\n")
		s.resetState()
		return
	}
	s.flushNoWait("(reset)\n")
	s.resetState()
}

func (s *Solver) flushNoWait(extra string) {
	s.buf.WriteString(extra)
	if s.log != nil {
		io.WriteString(s.log, s.buf.String())
	}
	io.WriteString(s.in, s.buf.String())
	s.buf.Reset()
}

// roundtrip sends the buffered commands plus a sentinel, and collects the output lines.
func (s *Solver) roundtrip(wait time.Duration) ([]string, bool) {
	s.buf.WriteString("(echo \"EOT\")\n")
	if s.log != nil {
		io.WriteString(s.log, s.buf.String())
	}
	if _, err := io.WriteString(s.in, s.buf.String()); err != nil {
		s.buf.Reset()
		s.dead = true
		return nil, false
	}
	s.buf.Reset()
	var res []string
	timer := time.NewTimer(wait)
	defer timer.Stop()
	for {
		select {
		case l, ok := <-s.lines:
			if !ok {
				s.dead = true
				return res, false
			}
			if strings.Trim(l, "\"") == "EOT" {
				return res, true
			}
			res = append(res, l)
		case <-timer.C:
			s.dead = true
			s.cmd.Process.Kill()
			return res, false
		}
	}
}

// ---------------------------------------------------------------------------
// emission

func pow2(k uint) *big.Int { return new(big.Int).Lsh(big.NewInt(1), k) }

func intLit(v *big.Int) string {
	if v.Sign() < 0 {
		return "(- " + new(big.Int).Neg(v).String() + ")"
	}
	return v.String()
}

func (s *Solver) bvSort(w uint8) string { return fmt.Sprintf("(_ BitVec %d)", w) }

func (s *Solver) sortOf(t Typ) string {
	switch t.K {
	case KBool:
		return "Bool"
	case KFloat:
		return s.bvSort(t.W)
	}
	if s.intMode {
		return "Int"
	}
	return s.bvSort(t.W)
}

func varName(n string) string {
	n = strings.NewReplacer("|", "!", "\\", "!").Replace(n)
	return "|" + n + "|"
}

func fpSort(w uint8) string {
	if w == 32 {
		return "8 24"
	}
	return "11 53"
}

func (s *Solver) bv2int() string {
	if s.kind == "cvc5" {
		return "bv2nat"
	}
	return "bv2int"
}

// ref returns the SMT expression naming t (defining it first if needed).
func (s *Solver) ref(t *Term) string {
	switch t.Op {
	case OpConst:
		return s.constLit(t)
	case OpVar:
		nm := varName(t.Name)
		if !s.declared[t.Name] {
			s.declared[t.Name] = true
			fmt.Fprintf(&s.buf, "(declare-const %s %s)\n", nm, s.sortOf(t.T))
			if s.intMode && t.T.K == KInt {
				lo, hi := rangeOf(t.T)
				fmt.Fprintf(&s.buf, "(assert (and (<= %s %s) (<= %s %s)))\n", intLit(lo), nm, nm, intLit(hi))
			}
		}
		return nm
	}
	name := fmt.Sprintf("t%d", t.id)
	if s.defined[t.id] {
		return name
	}
	// define children first (iteratively deep terms are fine with Go recursion)
	e := s.expr(t)
	fmt.Fprintf(&s.buf, "(define-fun %s () %s %s)\n", name, s.sortOf(t.T), e)
	s.defined[t.id] = true
	return name
}

func rangeOf(t Typ) (lo, hi *big.Int) {
	if t.S {
		lo = new(big.Int).Neg(pow2(uint(t.W) - 1))
		hi = new(big.Int).Sub(pow2(uint(t.W)-1), big.NewInt(1))
	} else {
		lo = big.NewInt(0)
		hi = new(big.Int).Sub(pow2(uint(t.W)), big.NewInt(1))
	}
	return
}

func (s *Solver) constLit(t *Term) string {
	switch t.T.K {
	case KBool:
		if t.V != 0 {
			return "true"
		}
		return "false"
	case KFloat:
		return fmt.Sprintf("(_ bv%d %d)", t.V, t.T.W)
	}
	if s.intMode {
		if t.T.S {
			return intLit(big.NewInt(t.SVal()))
		}
		return new(big.Int).SetUint64(t.V).String()
	}
	return fmt.Sprintf("(_ bv%d %d)", t.V, t.T.W)
}

func (s *Solver) fresh(sort string) string {
	s.nfresh++
	n := fmt.Sprintf("fr!%d", s.nfresh)
	fmt.Fprintf(&s.buf, "(declare-const %s %s)\n", n, sort)
	return n
}

func toFP(e string, w uint8) string { return fmt.Sprintf("((_ to_fp %s) %s)", fpSort(w), e) }

// fpBits introduces a fresh bit-vector whose float value equals the FP expression e.
func (s *Solver) fpBits(e string, w uint8) string {
	n := s.fresh(s.bvSort(w))
	fmt.Fprintf(&s.buf, "(assert (= %s %s))\n", toFP(n, w), e)
	return n
}

func (s *Solver) expr(t *Term) string {
	if t.T.K == KFloat || (t.A != nil && t.A.T.K == KFloat) {
		return s.floatExpr(t)
	}
	if s.intMode {
		return s.intExpr(t)
	}
	return s.bvExpr(t)
}

// shiftAmount adapts the shift count b to a's width (bv mode). Returns the expr
// and a condition expr (or "") that is true when the count is >= width and was truncated.
func (s *Solver) bvShiftCount(a, b *Term) (cnt string, over string) {
	rb := s.ref(b)
	switch {
	case b.T.W == a.T.W:
		return rb, ""
	case b.T.W < a.T.W:
		return fmt.Sprintf("((_ zero_extend %d) %s)", a.T.W-b.T.W, rb), ""
	default:
		over = fmt.Sprintf("(bvuge %s (_ bv%d %d))", rb, a.T.W, b.T.W)
		return fmt.Sprintf("((_ extract %d 0) %s)", a.T.W-1, rb), over
	}
}

func (s *Solver) bvExpr(t *Term) string {
	switch t.Op {
	case OpAdd, OpSub, OpMul, OpAnd, OpOr, OpXor:
		op := map[Op]string{OpAdd: "bvadd", OpSub: "bvsub", OpMul: "bvmul", OpAnd: "bvand", OpOr: "bvor", OpXor: "bvxor"}[t.Op]
		return fmt.Sprintf("(%s %s %s)", op, s.ref(t.A), s.ref(t.B))
	case OpDiv:
		if t.A.T.S {
			return fmt.Sprintf("(bvsdiv %s %s)", s.ref(t.A), s.ref(t.B))
		}
		return fmt.Sprintf("(bvudiv %s %s)", s.ref(t.A), s.ref(t.B))
	case OpRem:
		if t.A.T.S {
			return fmt.Sprintf("(bvsrem %s %s)", s.ref(t.A), s.ref(t.B))
		}
		return fmt.Sprintf("(bvurem %s %s)", s.ref(t.A), s.ref(t.B))
	case OpShl, OpShr:
		ra := s.ref(t.A)
		cnt, over := s.bvShiftCount(t.A, t.B)
		op := "bvshl"
		fill := fmt.Sprintf("(_ bv0 %d)", t.T.W)
		if t.Op == OpShr {
			op = "bvlshr"
			if t.A.T.S {
				op = "bvashr"
				fill = fmt.Sprintf("(bvashr %s (_ bv%d %d))", ra, t.T.W-1, t.T.W)
			}
		}
		e := fmt.Sprintf("(%s %s %s)", op, ra, cnt)
		if over != "" {
			e = fmt.Sprintf("(ite %s %s %s)", over, fill, e)
		}
		return e
	case OpNeg:
		return fmt.Sprintf("(bvneg %s)", s.ref(t.A))
	case OpCom:
		return fmt.Sprintf("(bvnot %s)", s.ref(t.A))
	case OpEq:
		return fmt.Sprintf("(= %s %s)", s.ref(t.A), s.ref(t.B))
	case OpLt, OpLe:
		var op string
		switch {
		case t.A.T.K == KBool:
			panic("ordering on bool")
		case t.A.T.S && t.Op == OpLt:
			op = "bvslt"
		case t.A.T.S:
			op = "bvsle"
		case t.Op == OpLt:
			op = "bvult"
		default:
			op = "bvule"
		}
		return fmt.Sprintf("(%s %s %s)", op, s.ref(t.A), s.ref(t.B))
	case OpNot:
		return fmt.Sprintf("(not %s)", s.ref(t.A))
	case OpBAnd:
		return fmt.Sprintf("(and %s %s)", s.ref(t.A), s.ref(t.B))
	case OpBOr:
		return fmt.Sprintf("(or %s %s)", s.ref(t.A), s.ref(t.B))
	case OpIte:
		return fmt.Sprintf("(ite %s %s %s)", s.ref(t.A), s.ref(t.B), s.ref(t.C))
	case OpConv:
		ra := s.ref(t.A)
		w1, w2 := t.A.T.W, t.T.W
		switch {
		case w2 < w1:
			return fmt.Sprintf("((_ extract %d 0) %s)", w2-1, ra)
		case w2 > w1 && t.A.T.S:
			return fmt.Sprintf("((_ sign_extend %d) %s)", w2-w1, ra)
		case w2 > w1:
			return fmt.Sprintf("((_ zero_extend %d) %s)", w2-w1, ra)
		}
		return ra
	case OpLZ, OpTZ, OpPop:
		return s.bvBitCount(t.Op, s.ref(t.A), t.T.W)
	}
	panic("bvExpr: unsupported op " + opNames[t.Op])
}

func (s *Solver) bvBitCount(op Op, ra string, w uint8) string {
	W := int(w)
	lit := func(v int) string { return fmt.Sprintf("(_ bv%d %d)", v, W) }
	bit := func(i int) string { return fmt.Sprintf("(= ((_ extract %d %d) %s) #b1)", i, i, ra) }
	switch op {
	case OpLZ:
		e := lit(W)
		for i := 0; i < W; i++ { // innermost = lowest bit
			e = fmt.Sprintf("(ite %s %s %s)", bit(i), lit(W-1-i), e)
		}
		return e
	case OpTZ:
		e := lit(W)
		for i := W - 1; i >= 0; i-- {
			e = fmt.Sprintf("(ite %s %s %s)", bit(i), lit(i), e)
		}
		return e
	default:
		var sb strings.Builder
		sb.WriteString("(bvadd")
		for i := 0; i < W; i++ {
			fmt.Fprintf(&sb, " ((_ zero_extend %d) ((_ extract %d %d) %s))", W-1, i, i, ra)
		}
		sb.WriteString(")")
		return sb.String()
	}
}

// ---- integer back-end

func (s *Solver) wrap(e string, t Typ) string {
	lo, hi := rangeOf(t)
	m := pow2(uint(t.W)).String()
	if !t.S {
		return fmt.Sprintf("(let ((e! %s)) (ite (and (<= 0 e!) (<= e! %s)) e! (mod e! %s)))", e, hi.String(), m)
	}
	h := pow2(uint(t.W) - 1).String()
	return fmt.Sprintf("(let ((e! %s)) (ite (and (<= %s e!) (<= e! %s)) e! (- (mod (+ e! %s) %s) %s)))", e, intLit(lo), hi.String(), h, m, h)
}

// unsignedRep gives the value of int term a as an unsigned W-bit integer expression.
func (s *Solver) unsignedRep(a *Term) string {
	ra := s.ref(a)
	if a.T.S {
		return fmt.Sprintf("(mod %s %s)", ra, pow2(uint(a.T.W)).String())
	}
	return ra
}

func (s *Solver) fromUnsigned(e string, t Typ) string {
	if !t.S {
		return e
	}
	return fmt.Sprintf("(let ((u! %s)) (ite (>= u! %s) (- u! %s) u!))", e, pow2(uint(t.W)-1).String(), pow2(uint(t.W)).String())
}

// maskExpr returns  u & c  for an unsigned-rep expression u (named by let var) and constant c.
func maskExpr(u string, c uint64, w uint8) string {
	if c == 0 {
		return "0"
	}
	var parts []string
	i := uint(0)
	for i < uint(w) {
		if c>>i&1 == 0 {
			i++
			continue
		}
		j := i
		for j < uint(w) && c>>j&1 == 1 {
			j++
		}
		// bits [i,j)
		p := u
		if i > 0 {
			p = fmt.Sprintf("(div %s %s)", p, pow2(i).String())
		}
		if j < uint(w) {
			p = fmt.Sprintf("(mod %s %s)", p, pow2(j-i).String())
		}
		if i > 0 {
			p = fmt.Sprintf("(* %s %s)", p, pow2(i).String())
		}
		parts = append(parts, p)
		i = j
	}
	if len(parts) == 1 {
		return parts[0]
	}
	return "(+ " + strings.Join(parts, " ") + ")"
}

func (s *Solver) viaBV(t *Term) string {
	// fall back: convert operands to bit-vectors, apply the bv op, convert back
	W := t.A.T.W
	toBV := func(x *Term) string { return fmt.Sprintf("((_ int2bv %d) %s)", x.T.W, s.ref(x)) }
	var e string
	switch t.Op {
	case OpAnd, OpOr, OpXor:
		op := map[Op]string{OpAnd: "bvand", OpOr: "bvor", OpXor: "bvxor"}[t.Op]
		e = fmt.Sprintf("(%s %s %s)", op, toBV(t.A), toBV(t.B))
	case OpShl, OpShr:
		op := "bvshl"
		if t.Op == OpShr {
			op = "bvlshr"
			if t.A.T.S {
				op = "bvashr"
			}
		}
		// count: clamp to width first (as Int), then to bv of width W
		cnt := fmt.Sprintf("((_ int2bv %d) (ite (>= %s %d) %d %s))", W, s.ref(t.B), W, W, s.ref(t.B))
		e = fmt.Sprintf("(%s %s %s)", op, toBV(t.A), cnt)
	case OpLZ, OpTZ, OpPop:
		e = s.bvBitCount(t.Op, toBV(t.A), W)
	default:
		panic("viaBV: " + opNames[t.Op])
	}
	return s.fromUnsigned(fmt.Sprintf("(%s %s)", s.bv2int(), e), t.T)
}

func (s *Solver) intExpr(t *Term) string {
	T := t.T
	switch t.Op {
	case OpAdd:
		return s.wrap(fmt.Sprintf("(+ %s %s)", s.ref(t.A), s.ref(t.B)), T)
	case OpSub:
		return s.wrap(fmt.Sprintf("(- %s %s)", s.ref(t.A), s.ref(t.B)), T)
	case OpMul:
		return s.wrap(fmt.Sprintf("(* %s %s)", s.ref(t.A), s.ref(t.B)), T)
	case OpNeg:
		return s.wrap(fmt.Sprintf("(- %s)", s.ref(t.A)), T)
	case OpDiv, OpRem:
		ra, rb := s.ref(t.A), s.ref(t.B)
		var q string
		if !t.A.T.S {
			q = fmt.Sprintf("(div %s %s)", ra, rb)
		} else if t.B.IsConst() && t.B.SVal() > 0 {
			q = fmt.Sprintf("(ite (>= %s 0) (div %s %s) (- (div (- %s) %s)))", ra, ra, rb, ra, rb)
		} else {
			q = fmt.Sprintf("(let ((q! (div (abs %s) (abs %s)))) (ite (= (>= %s 0) (>= %s 0)) q! (- q!)))", ra, rb, ra, rb)
		}
		if t.Op == OpDiv {
			if t.A.T.S {
				return s.wrap(q, T)
			}
			return q
		}
		return fmt.Sprintf("(- %s (* %s %s))", ra, rb, q)
	case OpAnd, OpOr, OpXor:
		a, b := t.A, t.B
		if a.IsConst() {
			a, b = b, a
		}
		if !b.IsConst() {
			// symbolic-by-symbolic bit operation: possible when the operands can share a one only in a
			// few statically known positions m:  a&b = sum over m of bit products;  a|b = a+b-(a&b);
			// a^b = a+b-2(a&b)   (all on the unsigned representations; no carries are lost)
			m := ^s.knownZero(a) & ^s.knownZero(b) & mask(T.W)
			if bits.OnesCount64(m) <= 8 {
				ua, ub := s.unsignedRep(a), s.unsignedRep(b)
				parts := []string{"0"}
				for k := uint(0); k < uint(T.W); k++ {
					if m>>k&1 == 0 {
						continue
					}
					p2 := pow2(k).String()
					parts = append(parts, fmt.Sprintf("(ite (and (= (mod (div ua! %s) 2) 1) (= (mod (div ub! %s) 2) 1)) %s 0)", p2, p2, p2))
				}
				and := "(+ " + strings.Join(parts, " ") + ")"
				var body string
				switch t.Op {
				case OpAnd:
					body = and
				case OpOr:
					body = fmt.Sprintf("(- (+ ua! ub!) %s)", and)
				default:
					body = fmt.Sprintf("(- (+ ua! ub!) (* 2 %s))", and)
				}
				return s.fromUnsigned(fmt.Sprintf("(let ((ua! %s) (ub! %s)) %s)", ua, ub, body), T)
			}
			return s.viaBV(t)
		}
		c := b.V & mask(T.W)
		u := s.unsignedRep(a)
		var e string
		switch t.Op {
		case OpAnd:
			e = fmt.Sprintf("(let ((u! %s)) %s)", u, maskExpr("u!", c, T.W))
		case OpOr: // (u & ~c) + c
			e = fmt.Sprintf("(let ((u! %s)) (+ %s %d))", u, maskExpr("u!", ^c&mask(T.W), T.W), c)
		default: // xor: (u & ~c) + (c - (u & c))
			e = fmt.Sprintf("(let ((u! %s)) (+ %s (- %d %s)))", u, maskExpr("u!", ^c&mask(T.W), T.W), c, maskExpr("u!", c, T.W))
		}
		return s.fromUnsigned(e, T)
	case OpShl:
		if !t.B.IsConst() {
			return s.viaBV(t)
		}
		if t.B.V >= uint64(T.W) {
			return "0"
		}
		return s.wrap(fmt.Sprintf("(* %s %s)", s.ref(t.A), pow2(uint(t.B.V)).String()), T)
	case OpShr:
		if !t.B.IsConst() {
			return s.viaBV(t)
		}
		k := t.B.V
		if k >= uint64(T.W) {
			if T.S {
				return fmt.Sprintf("(ite (< %s 0) (- 1) 0)", s.ref(t.A))
			}
			return "0"
		}
		return fmt.Sprintf("(div %s %s)", s.ref(t.A), pow2(uint(k)).String())
	case OpCom:
		if T.S {
			return fmt.Sprintf("(- (- %s) 1)", s.ref(t.A))
		}
		_, hi := rangeOf(T)
		return fmt.Sprintf("(- %s %s)", hi.String(), s.ref(t.A))
	case OpEq:
		return fmt.Sprintf("(= %s %s)", s.ref(t.A), s.ref(t.B))
	case OpLt:
		return fmt.Sprintf("(< %s %s)", s.ref(t.A), s.ref(t.B))
	case OpLe:
		return fmt.Sprintf("(<= %s %s)", s.ref(t.A), s.ref(t.B))
	case OpNot:
		return fmt.Sprintf("(not %s)", s.ref(t.A))
	case OpBAnd:
		return fmt.Sprintf("(and %s %s)", s.ref(t.A), s.ref(t.B))
	case OpBOr:
		return fmt.Sprintf("(or %s %s)", s.ref(t.A), s.ref(t.B))
	case OpIte:
		return fmt.Sprintf("(ite %s %s %s)", s.ref(t.A), s.ref(t.B), s.ref(t.C))
	case OpConv:
		slo, shi := rangeOf(t.A.T)
		dlo, dhi := rangeOf(T)
		if dlo.Cmp(slo) <= 0 && dhi.Cmp(shi) >= 0 {
			return s.ref(t.A)
		}
		return s.wrap(s.ref(t.A), T)
	case OpLZ, OpTZ, OpPop:
		return s.viaBV(t)
	}
	panic("intExpr: unsupported op " + opNames[t.Op])
}

// ---- floats (always carried as bit-vectors of their IEEE pattern)

func (s *Solver) floatExpr(t *Term) string {
	fa := func(x *Term) string { return toFP(s.ref(x), x.T.W) }
	switch t.Op {
	case OpIte:
		return fmt.Sprintf("(ite %s %s %s)", s.ref(t.A), s.ref(t.B), s.ref(t.C))
	case OpEq:
		return fmt.Sprintf("(fp.eq %s %s)", fa(t.A), fa(t.B))
	case OpLt:
		return fmt.Sprintf("(fp.lt %s %s)", fa(t.A), fa(t.B))
	case OpLe:
		return fmt.Sprintf("(fp.leq %s %s)", fa(t.A), fa(t.B))
	case OpFIsNaN:
		return fmt.Sprintf("(fp.isNaN %s)", fa(t.A))
	case OpFAdd, OpFSub, OpFMul, OpFDiv:
		op := map[Op]string{OpFAdd: "fp.add", OpFSub: "fp.sub", OpFMul: "fp.mul", OpFDiv: "fp.div"}[t.Op]
		return s.fpBits(fmt.Sprintf("(%s RNE %s %s)", op, fa(t.A), fa(t.B)), t.T.W)
	case OpFNeg:
		return fmt.Sprintf("(bvxor %s (_ bv%d %d))", s.ref(t.A), uint64(1)<<(t.T.W-1), t.T.W)
	case OpF2F:
		return s.fpBits(fmt.Sprintf("((_ to_fp %s) RNE %s)", fpSort(t.T.W), fa(t.A)), t.T.W)
	case OpI2F:
		ra := s.ref(t.A)
		if s.intMode {
			return s.fpBits(fmt.Sprintf("((_ to_fp %s) RNE (to_real %s))", fpSort(t.T.W), ra), t.T.W)
		}
		if t.A.T.S {
			return s.fpBits(fmt.Sprintf("((_ to_fp %s) RNE %s)", fpSort(t.T.W), ra), t.T.W)
		}
		return s.fpBits(fmt.Sprintf("((_ to_fp_unsigned %s) RNE %s)", fpSort(t.T.W), ra), t.T.W)
	case OpF2I:
		var e string
		if t.T.S {
			e = fmt.Sprintf("((_ fp.to_sbv %d) RTZ %s)", t.T.W, fa(t.A))
		} else {
			e = fmt.Sprintf("((_ fp.to_ubv %d) RTZ %s)", t.T.W, fa(t.A))
		}
		if s.intMode {
			return s.fromUnsigned(fmt.Sprintf("(%s %s)", s.bv2int(), e), t.T)
		}
		return e
	case OpF2Bits:
		if s.intMode {
			return fmt.Sprintf("(%s %s)", s.bv2int(), s.ref(t.A))
		}
		return s.ref(t.A)
	case OpBits2F:
		if s.intMode {
			return fmt.Sprintf("((_ int2bv %d) %s)", t.T.W, s.ref(t.A))
		}
		return s.ref(t.A)
	}
	panic("floatExpr: unsupported op " + opNames[t.Op])
}

// ---------------------------------------------------------------------------
// commands

// Assert adds t to the current context.
func (s *Solver) Assert(t *Term) {
	s.asserted = append(s.asserted, t)
	r := s.ref(t)
	fmt.Fprintf(&s.buf, "(assert %s)\n", r)
}

// Check decides satisfiability of the current context plus extra (may be nil).
// When sat and wantModel, the values of vars are returned.
func (s *Solver) Check(extra *Term, vars []*Term, wantModel bool) (Result, map[string]uint64) {
	if s.dead {
		// the previous query killed the process: restart and re-assert the path condition so far
		log := s.asserted
		s.restart()
		s.asserted = nil
		for _, t := range log {
			s.Assert(t)
		}
	}
	// make sure all vars are declared (at the base level) so get-value is well-formed
	for _, v := range vars {
		s.ref(v)
	}
	if extra != nil {
		r := s.ref(extra)
		fmt.Fprintf(&s.buf, "(push 1)\n(assert %s)\n", r)
	}
	s.buf.WriteString("(check-sat)\n")
	t0 := time.Now()
	lines, ok := s.roundtrip(time.Duration(s.timeoutMs)*time.Millisecond + 5*time.Second)
	dt := time.Since(t0)
	s.Stats.Queries++
	s.Stats.SolverTime += dt
	if dt > s.Stats.MaxQuery {
		s.Stats.MaxQuery = dt
	}
	res := Unknown
	if !ok {
		s.LastErr = "solver timeout/hang (killed)"
		s.Stats.Unknown++
		return Unknown, nil
	}
	for _, l := range lines {
		if strings.HasPrefix(l, "(error") {
			s.LastErr = l
			s.Stats.Errors++
			res = Unknown
			if extra != nil {
				s.buf.WriteString("(pop 1)\n")
			}
			s.Stats.Unknown++
			return res, nil
		}
	}
	if len(lines) > 0 {
		switch strings.TrimSpace(lines[len(lines)-1]) {
		case "sat":
			res = Sat
		case "unsat":
			res = Unsat
		default:
			s.LastErr = "solver said: " + strings.Join(lines, " / ")
		}
	}
	var model map[string]uint64
	if res == Sat && wantModel && len(vars) > 0 {
		s.buf.WriteString("(get-value (")
		for _, v := range vars {
			s.buf.WriteString(varName(v.Name))
			s.buf.WriteByte(' ')
		}
		s.buf.WriteString("))\n")
		ml, ok := s.roundtrip(30 * time.Second)
		if ok {
			model = parseModel(strings.Join(ml, " "), vars)
		}
		if model == nil {
			s.LastErr = "model parse failed: " + strings.Join(ml, " ")
			res = Unknown
		}
	}
	if extra != nil && !s.dead {
		s.buf.WriteString("(pop 1)\n")
	}
	switch res {
	case Sat:
		s.Stats.Sat++
	case Unsat:
		s.Stats.Unsat++
	default:
		s.Stats.Unknown++
	}
	return res, model
}

// ---- s-expression model parsing

type sx struct {
	atom string
	list []*sx
}

func parseSx(src string) []*sx {
	var stack [][]*sx
	cur := []*sx{}
	i := 0
	for i < len(src) {
		c := src[i]
		switch {
		case c == '(':
			stack = append(stack, cur)
			cur = []*sx{}
			i++
		case c == ')':
			if len(stack) == 0 {
				return nil
			}
			l := &sx{list: cur}
			if l.list == nil {
				l.list = []*sx{}
			}
			cur = append(stack[len(stack)-1], l)
			stack = stack[:len(stack)-1]
			i++
		case c == ' ' || c == '\t' || c == '\n' || c == '\r':
			i++
		case c == '|':
			j := strings.IndexByte(src[i+1:], '|')
			if j < 0 {
				return nil
			}
			cur = append(cur, &sx{atom: src[i : i+j+2]})
			i += j + 2
		default:
			j := i
			for j < len(src) && !strings.ContainsRune("() \t\n\r", rune(src[j])) {
				j++
			}
			cur = append(cur, &sx{atom: src[i:j]})
			i = j
		}
	}
	if len(stack) != 0 {
		return nil
	}
	return cur
}

func sxValue(x *sx, t Typ) (uint64, bool) {
	if x.list == nil {
		a := x.atom
		switch {
		case a == "true":
			return 1, true
		case a == "false":
			return 0, true
		case strings.HasPrefix(a, "#x"):
			v, ok := new(big.Int).SetString(a[2:], 16)
			if !ok {
				return 0, false
			}
			return v.Uint64(), true
		case strings.HasPrefix(a, "#b"):
			v, ok := new(big.Int).SetString(a[2:], 2)
			if !ok {
				return 0, false
			}
			return v.Uint64(), true
		default:
			v, ok := new(big.Int).SetString(a, 10)
			if !ok {
				return 0, false
			}
			return new(big.Int).And(v, new(big.Int).SetUint64(^uint64(0))).Uint64() & mask(t.W), true
		}
	}
	l := x.list
	if len(l) == 2 && l[0].atom == "-" {
		v, ok := sxValue(l[1], t)
		return (-v) & mask(t.W), ok
	}
	if len(l) == 3 && l[0].atom == "_" && strings.HasPrefix(l[1].atom, "bv") {
		v, ok := new(big.Int).SetString(l[1].atom[2:], 10)
		if !ok {
			return 0, false
		}
		return v.Uint64(), true
	}
	return 0, false
}

func parseModel(src string, vars []*Term) map[string]uint64 {
	xs := parseSx(src)
	if len(xs) != 1 || xs[0].list == nil {
		return nil
	}
	byName := map[string]*Term{}
	for _, v := range vars {
		byName[varName(v.Name)] = v
	}
	m := map[string]uint64{}
	for _, pr := range xs[0].list {
		if pr.list == nil || len(pr.list) != 2 {
			return nil
		}
		v := byName[pr.list[0].atom]
		if v == nil {
			// cvc5 may print without bars when not needed
			v = byName["|"+pr.list[0].atom+"|"]
		}
		if v == nil {
			return nil
		}
		val, ok := sxValue(pr.list[1], v.T)
		if !ok {
			return nil
		}
		m[v.Name] = val & mask(v.T.W)
	}
	return m
}
