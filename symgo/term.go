package main

// Terms: a hash-consed DAG of Go-level scalar operations. One term language,
// two SMT emitters (bit-vector and integer, see smt.go). Every constructor
// folds constants, so concrete executions stay concrete.

import (
	"fmt"
	"math"
	"math/bits"
)

type Kind uint8

const (
	KBool Kind = iota
	KInt
	KFloat
)

// Typ is the Go-level scalar type of a term.
type Typ struct {
	K Kind
	W uint8 // 8,16,32,64 (1 for bool)
	S bool  // signed (ints only)
}

var (
	TBool = Typ{KBool, 1, false}
	TI64  = Typ{KInt, 64, true}
	TU64  = Typ{KInt, 64, false}
	TI32  = Typ{KInt, 32, true}
	TU32  = Typ{KInt, 32, false}
	TU8   = Typ{KInt, 8, false}
	TF64  = Typ{KFloat, 64, false}
	TF32  = Typ{KFloat, 32, false}
)

func (t Typ) String() string {
	switch t.K {
	case KBool:
		return "bool"
	case KFloat:
		return fmt.Sprintf("f%d", t.W)
	}
	if t.S {
		return fmt.Sprintf("i%d", t.W)
	}
	return fmt.Sprintf("u%d", t.W)
}

type Op uint8

const (
	OpConst Op = iota
	OpVar
	OpAdd
	OpSub
	OpMul
	OpDiv
	OpRem
	OpAnd
	OpOr
	OpXor
	OpShl
	OpShr
	OpNeg
	OpCom
	OpEq
	OpLt
	OpLe
	OpNot
	OpBAnd
	OpBOr
	OpIte
	OpConv // int -> int (incl. retag) ; bool->int not allowed
	OpI2F
	OpF2I
	OpF2F
	OpFAdd
	OpFSub
	OpFMul
	OpFDiv
	OpFNeg
	OpF2Bits // float -> uint of same width (bit pattern)
	OpBits2F // uint -> float of same width
	OpFIsNaN
	OpLZ  // leading zeros (result same type as arg)
	OpTZ  // trailing zeros
	OpPop // popcount
)

var opNames = [...]string{"const", "var", "add", "sub", "mul", "div", "rem", "and", "or", "xor", "shl", "shr", "neg", "com",
	"eq", "lt", "le", "not", "band", "bor", "ite", "conv", "i2f", "f2i", "f2f", "fadd", "fsub", "fmul", "fdiv", "fneg", "f2bits", "bits2f", "fisnan", "lz", "tz", "pop"}

type Term struct {
	Op      Op
	T       Typ
	A, B, C *Term
	V       uint64
	Name    string
	id      int
	// eval memo
	evEpoch int
	evVal   uint64
	kz      uint64
	kzSet   bool
	// size (number of distinct nodes is expensive; this is tree-depth bound)
	depth int32
}

type termKey struct {
	op      Op
	t       Typ
	a, b, c int
	v       uint64
	name    string
}

// TB is a term bank (one per worker).
type TB struct {
	tab     map[termKey]*Term
	next    int
	evEpoch int
	True    *Term
	False   *Term
	vars    []*Term // declared variables in creation order
	varByNm map[string]*Term
}

func NewTB() *TB {
	tb := &TB{tab: map[termKey]*Term{}, varByNm: map[string]*Term{}}
	tb.True = tb.Const(TBool, 1)
	tb.False = tb.Const(TBool, 0)
	return tb
}

func mask(w uint8) uint64 {
	if w >= 64 {
		return ^uint64(0)
	}
	return (uint64(1) << w) - 1
}

func id(t *Term) int {
	if t == nil {
		return -1
	}
	return t.id
}

func (tb *TB) mk(op Op, t Typ, a, b, c *Term, v uint64, name string) *Term {
	k := termKey{op, t, id(a), id(b), id(c), v, name}
	if x, ok := tb.tab[k]; ok {
		return x
	}
	x := &Term{Op: op, T: t, A: a, B: b, C: c, V: v, Name: name, id: tb.next}
	tb.next++
	d := int32(0)
	for _, s := range []*Term{a, b, c} {
		if s != nil && s.depth > d {
			d = s.depth
		}
	}
	x.depth = d + 1
	tb.tab[k] = x
	return x
}

func (tb *TB) Const(t Typ, v uint64) *Term {
	return tb.mk(OpConst, t, nil, nil, nil, v&mask(t.W), "")
}
func (tb *TB) Bool(b bool) *Term {
	if b {
		return tb.True
	}
	return tb.False
}
func (tb *TB) Int(t Typ, v int64) *Term { return tb.Const(t, uint64(v)) }

func (tb *TB) Var(t Typ, name string) *Term {
	if x, ok := tb.varByNm[name]; ok {
		if x.T != t {
			panic(fmt.Sprintf("variable %s redeclared with type %v (was %v)", name, t, x.T))
		}
		return x
	}
	x := tb.mk(OpVar, t, nil, nil, nil, 0, name)
	tb.varByNm[name] = x
	tb.vars = append(tb.vars, x)
	return x
}

func (t *Term) IsConst() bool { return t.Op == OpConst }

// SVal returns the constant as a sign-correct int64.
func (t *Term) SVal() int64 { return sext(t.V, t.T) }

func sext(v uint64, t Typ) int64 {
	if t.K == KInt && t.S && t.W < 64 {
		sh := 64 - uint(t.W)
		return int64(v<<sh) >> sh
	}
	return int64(v)
}

// ---------------------------------------------------------------------------
// concrete semantics (shared by constant folding and model evaluation)

func f64(v uint64) float64 { return math.Float64frombits(v) }
func f32(v uint64) float32 { return math.Float32frombits(uint32(v)) }
func fval(v uint64, t Typ) float64 {
	if t.W == 32 {
		return float64(f32(v))
	}
	return f64(v)
}
func fbits(f float64, t Typ) uint64 {
	if t.W == 32 {
		return uint64(math.Float32bits(float32(f)))
	}
	return math.Float64bits(f)
}

func b2u(b bool) uint64 {
	if b {
		return 1
	}
	return 0
}

// evalOp computes op on concrete operands. at is the operand type (type of A),
// bt the type of B (for shifts), rt the result type.
func evalOp(op Op, rt, at, bt Typ, a, b, c uint64) uint64 {
	m := mask(rt.W)
	switch op {
	case OpAdd:
		return (a + b) & m
	case OpSub:
		return (a - b) & m
	case OpMul:
		return (a * b) & m
	case OpDiv:
		if b == 0 {
			return 0 // guarded by the interpreter (division by zero panics before)
		}
		if at.S {
			x, y := sext(a, at), sext(b, at)
			if y == -1 {
				return uint64(-x) & m
			}
			return uint64(x/y) & m
		}
		return (a / b) & m
	case OpRem:
		if b == 0 {
			return a
		}
		if at.S {
			x, y := sext(a, at), sext(b, at)
			if y == -1 {
				return 0
			}
			return uint64(x%y) & m
		}
		return (a % b) & m
	case OpAnd:
		return a & b
	case OpOr:
		return a | b
	case OpXor:
		return a ^ b
	case OpShl:
		if b >= uint64(at.W) {
			return 0
		}
		return (a << b) & m
	case OpShr:
		if at.S {
			x := sext(a, at)
			if b >= uint64(at.W) {
				b = 63
			}
			return uint64(x>>b) & m
		}
		if b >= uint64(at.W) {
			return 0
		}
		return a >> b
	case OpNeg:
		return (-a) & m
	case OpCom:
		return (^a) & m
	case OpEq:
		if at.K == KFloat {
			return b2u(fval(a, at) == fval(b, at))
		}
		return b2u(a == b)
	case OpLt:
		if at.K == KFloat {
			return b2u(fval(a, at) < fval(b, at))
		}
		if at.S {
			return b2u(sext(a, at) < sext(b, at))
		}
		return b2u(a < b)
	case OpLe:
		if at.K == KFloat {
			return b2u(fval(a, at) <= fval(b, at))
		}
		if at.S {
			return b2u(sext(a, at) <= sext(b, at))
		}
		return b2u(a <= b)
	case OpNot:
		return a ^ 1
	case OpBAnd:
		return a & b
	case OpBOr:
		return a | b
	case OpIte:
		if a != 0 {
			return b
		}
		return c
	case OpConv:
		if at.S {
			return uint64(sext(a, at)) & m
		}
		return a & m
	case OpI2F:
		var f float64
		if at.S {
			f = float64(sext(a, at))
		} else {
			f = float64(a)
		}
		if rt.W == 32 {
			if at.S {
				return uint64(math.Float32bits(float32(sext(a, at))))
			}
			return uint64(math.Float32bits(float32(a)))
		}
		return math.Float64bits(f)
	case OpF2I:
		f := fval(a, at)
		if rt.S {
			return uint64(int64(f)) & m
		}
		return uint64(f) & m
	case OpF2F:
		return fbits(fval(a, at), rt)
	case OpFAdd:
		if rt.W == 32 {
			return uint64(math.Float32bits(f32(a) + f32(b)))
		}
		return math.Float64bits(f64(a) + f64(b))
	case OpFSub:
		if rt.W == 32 {
			return uint64(math.Float32bits(f32(a) - f32(b)))
		}
		return math.Float64bits(f64(a) - f64(b))
	case OpFMul:
		if rt.W == 32 {
			return uint64(math.Float32bits(f32(a) * f32(b)))
		}
		return math.Float64bits(f64(a) * f64(b))
	case OpFDiv:
		if rt.W == 32 {
			return uint64(math.Float32bits(f32(a) / f32(b)))
		}
		return math.Float64bits(f64(a) / f64(b))
	case OpFNeg:
		if rt.W == 32 {
			return a ^ (1 << 31)
		}
		return a ^ (1 << 63)
	case OpF2Bits, OpBits2F:
		return a
	case OpFIsNaN:
		f := fval(a, at)
		return b2u(f != f)
	case OpLZ:
		return uint64(bits.LeadingZeros64(a&mask(at.W)) - (64 - int(at.W)))
	case OpTZ:
		if a&mask(at.W) == 0 {
			return uint64(at.W)
		}
		return uint64(bits.TrailingZeros64(a))
	case OpPop:
		return uint64(bits.OnesCount64(a & mask(at.W)))
	}
	panic("evalOp: bad op " + opNames[op])
}

func (tb *TB) NewModelEpoch() { tb.evEpoch++ }

// Eval evaluates t under model (missing variables read as 0). Memoised per epoch;
// callers must call NewModelEpoch when switching models.
func (tb *TB) Eval(t *Term, model map[string]uint64) uint64 {
	if t.Op == OpConst {
		return t.V
	}
	if t.evEpoch == tb.evEpoch {
		return t.evVal
	}
	var v uint64
	switch t.Op {
	case OpVar:
		v = model[t.Name] & mask(t.T.W)
	case OpIte:
		if tb.Eval(t.A, model) != 0 {
			v = tb.Eval(t.B, model)
		} else {
			v = tb.Eval(t.C, model)
		}
	default:
		var a, b, c uint64
		var at, bt Typ
		if t.A != nil {
			a = tb.Eval(t.A, model)
			at = t.A.T
		}
		if t.B != nil {
			b = tb.Eval(t.B, model)
			bt = t.B.T
		}
		if t.C != nil {
			c = tb.Eval(t.C, model)
		}
		v = evalOp(t.Op, t.T, at, bt, a, b, c)
	}
	t.evEpoch = tb.evEpoch
	t.evVal = v
	return v
}

// ---------------------------------------------------------------------------
// constructors with folding

func (tb *TB) bin(op Op, rt Typ, a, b *Term) *Term {
	if a.IsConst() && b.IsConst() {
		return tb.Const(rt, evalOp(op, rt, a.T, b.T, a.V, b.V, 0))
	}
	return tb.mk(op, rt, a, b, nil, 0, "")
}

func (tb *TB) un(op Op, rt Typ, a *Term) *Term {
	if a.IsConst() {
		return tb.Const(rt, evalOp(op, rt, a.T, Typ{}, a.V, 0, 0))
	}
	return tb.mk(op, rt, a, nil, nil, 0, "")
}

func isC(t *Term, v uint64) bool { return t.Op == OpConst && t.V == v }

func (tb *TB) Add(a, b *Term) *Term {
	if isC(a, 0) {
		return b
	}
	if isC(b, 0) {
		return a
	}
	if a.IsConst() && !b.IsConst() {
		a, b = b, a
	}
	// (x + c1) + c2
	if b.IsConst() && a.Op == OpAdd && a.B.IsConst() {
		return tb.Add(a.A, tb.Const(a.T, a.B.V+b.V))
	}
	// modular identities (exact for wrap-around arithmetic): a + (b - a) = b
	if b.Op == OpSub && b.B == a {
		return b.A
	}
	if a.Op == OpSub && a.B == b {
		return a.A
	}
	return tb.bin(OpAdd, a.T, a, b)
}
func (tb *TB) Sub(a, b *Term) *Term {
	if isC(b, 0) {
		return a
	}
	if a == b {
		return tb.Const(a.T, 0)
	}
	if b.IsConst() && !a.IsConst() {
		return tb.Add(a, tb.Const(a.T, -b.V))
	}
	// (a + b) - a = b ; (a + b) - b = a ; a - (a - b) = b   (exact modulo 2^w)
	if a.Op == OpAdd {
		if a.A == b {
			return a.B
		}
		if a.B == b {
			return a.A
		}
	}
	if b.Op == OpSub && b.A == a {
		return b.B
	}
	return tb.bin(OpSub, a.T, a, b)
}
func (tb *TB) Mul(a, b *Term) *Term {
	if a.IsConst() && !b.IsConst() {
		a, b = b, a
	}
	if isC(b, 1) {
		return a
	}
	if isC(b, 0) {
		return b
	}
	return tb.bin(OpMul, a.T, a, b)
}
func (tb *TB) Div(a, b *Term) *Term {
	if isC(b, 1) {
		return a
	}
	return tb.bin(OpDiv, a.T, a, b)
}
func (tb *TB) Rem(a, b *Term) *Term {
	if isC(b, 1) {
		return tb.Const(a.T, 0)
	}
	return tb.bin(OpRem, a.T, a, b)
}
func (tb *TB) And(a, b *Term) *Term {
	if a.IsConst() && !b.IsConst() {
		a, b = b, a
	}
	if isC(b, 0) {
		return b
	}
	if isC(b, mask(a.T.W)) || a == b {
		return a
	}
	if b.IsConst() && b.V&^tb.knownZero(a)&mask(a.T.W) == 0 {
		return tb.Const(a.T, 0) // the mask selects only bits that are always zero
	}
	// (x & y) & c  ->  (x & c) & (y & c): keeps every symbolic-by-symbolic conjunction confined to
	// the bits of the constant mask (cheap in the integer back-end)
	if b.IsConst() && a.Op == OpAnd && !a.A.IsConst() && !a.B.IsConst() {
		return tb.bin(OpAnd, a.T, tb.And(a.A, b), tb.And(a.B, b))
	}
	return tb.bin(OpAnd, a.T, a, b)
}
func (tb *TB) Or(a, b *Term) *Term {
	if a.IsConst() && !b.IsConst() {
		a, b = b, a
	}
	if isC(b, 0) || a == b {
		return a
	}
	if isC(b, mask(a.T.W)) {
		return b
	}
	return tb.bin(OpOr, a.T, a, b)
}
func (tb *TB) Xor(a, b *Term) *Term {
	if a.IsConst() && !b.IsConst() {
		a, b = b, a
	}
	if isC(b, 0) {
		return a
	}
	if a == b {
		return tb.Const(a.T, 0)
	}
	return tb.bin(OpXor, a.T, a, b)
}
func (tb *TB) Shl(a, b *Term) *Term {
	if isC(b, 0) {
		return a
	}
	return tb.bin(OpShl, a.T, a, b)
}
func (tb *TB) Shr(a, b *Term) *Term {
	if isC(b, 0) {
		return a
	}
	return tb.bin(OpShr, a.T, a, b)
}
func (tb *TB) Neg(a *Term) *Term { return tb.un(OpNeg, a.T, a) }
func (tb *TB) Com(a *Term) *Term { return tb.un(OpCom, a.T, a) }

func (tb *TB) Eq(a, b *Term) *Term {
	if a.T.K == KBool {
		// boolean equality
		if a.IsConst() {
			a, b = b, a
		}
		if b.IsConst() {
			if b.V != 0 {
				return a
			}
			return tb.Not(a)
		}
		if a == b {
			return tb.True
		}
		return tb.mk(OpEq, TBool, a, b, nil, 0, "")
	}
	if a == b && a.T.K != KFloat {
		return tb.True
	}
	if a.IsConst() && !b.IsConst() {
		a, b = b, a
	}
	// ite(c, k1, k2) == k  folds
	if b.IsConst() && a.Op == OpIte && a.B.IsConst() && a.C.IsConst() && a.T.K != KFloat {
		tv, fv := a.B.V == b.V, a.C.V == b.V
		switch {
		case tv && fv:
			return tb.True
		case tv:
			return a.A
		case fv:
			return tb.Not(a.A)
		default:
			return tb.False
		}
	}
	if a.id > b.id && !b.IsConst() {
		a, b = b, a
	}
	return tb.bin(OpEq, TBool, a, b)
}
func (tb *TB) Ne(a, b *Term) *Term { return tb.Not(tb.Eq(a, b)) }
func (tb *TB) Lt(a, b *Term) *Term {
	if a == b && a.T.K != KFloat {
		return tb.False
	}
	return tb.bin(OpLt, TBool, a, b)
}
func (tb *TB) Le(a, b *Term) *Term {
	if a == b && a.T.K != KFloat {
		return tb.True
	}
	return tb.bin(OpLe, TBool, a, b)
}
func (tb *TB) Gt(a, b *Term) *Term { return tb.Lt(b, a) }
func (tb *TB) Ge(a, b *Term) *Term { return tb.Le(b, a) }

func (tb *TB) Not(a *Term) *Term {
	if a.IsConst() {
		return tb.Bool(a.V == 0)
	}
	if a.Op == OpNot {
		return a.A
	}
	return tb.mk(OpNot, TBool, a, nil, nil, 0, "")
}
func (tb *TB) BAnd(a, b *Term) *Term {
	if a.IsConst() {
		if a.V != 0 {
			return b
		}
		return a
	}
	if b.IsConst() {
		if b.V != 0 {
			return a
		}
		return b
	}
	if a == b {
		return a
	}
	return tb.mk(OpBAnd, TBool, a, b, nil, 0, "")
}
func (tb *TB) BOr(a, b *Term) *Term {
	if a.IsConst() {
		if a.V != 0 {
			return a
		}
		return b
	}
	if b.IsConst() {
		if b.V != 0 {
			return b
		}
		return a
	}
	if a == b {
		return a
	}
	return tb.mk(OpBOr, TBool, a, b, nil, 0, "")
}
func (tb *TB) Implies(a, b *Term) *Term { return tb.BOr(tb.Not(a), b) }

func (tb *TB) Ite(c, a, b *Term) *Term {
	if c.IsConst() {
		if c.V != 0 {
			return a
		}
		return b
	}
	if a == b {
		return a
	}
	if a.T.K == KBool {
		if a.IsConst() && b.IsConst() {
			if a.V != 0 {
				return c
			}
			return tb.Not(c)
		}
		if a.IsConst() {
			if a.V != 0 {
				return tb.BOr(c, b)
			}
			return tb.BAnd(tb.Not(c), b)
		}
		if b.IsConst() {
			if b.V != 0 {
				return tb.BOr(tb.Not(c), a)
			}
			return tb.BAnd(c, a)
		}
	}
	if a.T != b.T {
		if a.T.K == b.T.K && a.T.W == b.T.W {
			b = tb.Conv(b, a.T)
		} else {
			panic(fmt.Sprintf("ite of different types %v %v", a.T, b.T))
		}
	}
	return tb.mk(OpIte, a.T, c, a, b, 0, "")
}

// Conv converts an integer term to integer type t (Go conversion semantics).
func (tb *TB) Conv(a *Term, t Typ) *Term {
	if a.T == t {
		return a
	}
	if a.T.K != KInt || t.K != KInt {
		panic(fmt.Sprintf("Conv %v -> %v", a.T, t))
	}
	if a.IsConst() {
		return tb.Const(t, evalOp(OpConv, t, a.T, Typ{}, a.V, 0, 0))
	}
	// conv(conv(x)) where inner is a widening or retag and outer returns to x's type
	if a.Op == OpConv && a.A.T == t && a.T.W >= t.W {
		return a.A
	}
	return tb.mk(OpConv, t, a, nil, nil, 0, "")
}

func (tb *TB) I2F(a *Term, t Typ) *Term { return tb.un(OpI2F, t, a) }
func (tb *TB) F2I(a *Term, t Typ) *Term { return tb.un(OpF2I, t, a) }
func (tb *TB) F2F(a *Term, t Typ) *Term {
	if a.T == t {
		return a
	}
	return tb.un(OpF2F, t, a)
}
func (tb *TB) FBin(op Op, a, b *Term) *Term { return tb.bin(op, a.T, a, b) }
func (tb *TB) FNeg(a *Term) *Term           { return tb.un(OpFNeg, a.T, a) }
func (tb *TB) F2Bits(a *Term) *Term {
	if a.Op == OpBits2F {
		return a.A
	}
	return tb.un(OpF2Bits, Typ{KInt, a.T.W, false}, a)
}
func (tb *TB) Bits2F(a *Term) *Term {
	if a.T.S {
		a = tb.Conv(a, Typ{KInt, a.T.W, false})
	}
	if a.Op == OpF2Bits {
		return a.A
	}
	return tb.un(OpBits2F, Typ{KFloat, a.T.W, false}, a)
}
func (tb *TB) FIsNaN(a *Term) *Term { return tb.un(OpFIsNaN, TBool, a) }

func (tb *TB) BoolToInt(c *Term, t Typ) *Term {
	return tb.Ite(c, tb.Const(t, 1), tb.Const(t, 0))
}

// String renders a term for humans (bounded).
func (t *Term) String() string {
	var sb []byte
	var rec func(t *Term, d int)
	rec = func(t *Term, d int) {
		if len(sb) > 400 {
			return
		}
		switch t.Op {
		case OpConst:
			if t.T.K == KBool {
				if t.V != 0 {
					sb = append(sb, "true"...)
				} else {
					sb = append(sb, "false"...)
				}
				return
			}
			if t.T.K == KFloat {
				sb = append(sb, fmt.Sprintf("%v", fval(t.V, t.T))...)
				return
			}
			sb = append(sb, fmt.Sprintf("%d", t.SVal())...)
			if !t.T.S && t.V > 1<<62 {
				sb = sb[:len(sb)-len(fmt.Sprintf("%d", t.SVal()))]
				sb = append(sb, fmt.Sprintf("%d", t.V)...)
			}
		case OpVar:
			sb = append(sb, t.Name...)
		default:
			if d > 6 {
				sb = append(sb, "…"...)
				return
			}
			sb = append(sb, '(')
			sb = append(sb, opNames[t.Op]...)
			for _, s := range []*Term{t.A, t.B, t.C} {
				if s != nil {
					sb = append(sb, ' ')
					rec(s, d+1)
				}
			}
			sb = append(sb, ')')
		}
	}
	rec(t, 0)
	return string(sb)
}
