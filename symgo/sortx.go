package main

import "golang.org/x/tools/go/ssa"

// sort.Slice / SliceStable / SliceIsSorted over an interpreter slice: the reflect-based swapper cannot
// be interpreted; an insertion sort driven by the caller's less closure (each comparison a decision)
// gives a sorted permutation, stable, which satisfies both contracts.
func init() {
	sorter := func(in *Interp, caller *frame, _ *ssa.Function, a []Value) (Value, bool) {
		s := a[0].(Iface).v.(Slice)
		n := len(s.a)
		for i := 1; i < n; i++ {
			for j := i; j > 0; j-- {
				lt := in.call(caller, a[1], []Value{in.tb.Int(TI64, int64(j)), in.tb.Int(TI64, int64(j-1))}).(*Term)
				if !in.decide(lt) {
					break
				}
				s.a[j], s.a[j-1] = s.a[j-1], s.a[j]
			}
		}
		return nil, true
	}
	reg("sort.Slice", sorter)
	reg("sort.SliceStable", sorter)
	reg("sort.SliceIsSorted", func(in *Interp, caller *frame, _ *ssa.Function, a []Value) (Value, bool) {
		s := a[0].(Iface).v.(Slice)
		for i := len(s.a) - 1; i > 0; i-- {
			lt := in.call(caller, a[1], []Value{in.tb.Int(TI64, int64(i)), in.tb.Int(TI64, int64(i-1))}).(*Term)
			if in.decide(lt) {
				return in.tb.False, true
			}
		}
		return in.tb.True, true
	})
}
