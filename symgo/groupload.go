package main

// Load through a symbolic index from an array of non-scalar elements (e.g. a [256][]byte table
// indexed by an input byte): instead of forking once per index, fork once per group of indices
// that hold the same value.

import (
	"fmt"
	"go/types"
)

func valueFingerprint(v Value) (string, bool) {
	switch x := v.(type) {
	case Slice:
		if x.a == nil {
			return "slice:nil", true
		}
		if len(x.a) == 0 {
			return "slice:empty", true
		}
		return fmt.Sprintf("slice:%p:%d:%d", &x.a[0], len(x.a), cap(x.a)), true
	case Str:
		if x.b == nil && !x.opaque {
			return "str:" + x.c, true
		}
	case Ptr:
		if x.idx == nil {
			return fmt.Sprintf("ptr:%p", x.cell), true
		}
	case *Term:
		if x.IsConst() {
			return fmt.Sprintf("c:%d", x.V), true
		}
		return fmt.Sprintf("t:%d", x.id), true
	case Iface:
		if x.t == nil {
			return "iface:nil", true
		}
	}
	return "", false
}

func (in *Interp) loadGrouped(t types.Type, p Ptr) (Value, bool) {
	n := len(p.arr)
	if n < 8 {
		return nil, false
	}
	type group struct {
		rep  int
		idxs []int
	}
	var groups []*group
	byFP := map[string]*group{}
	for i := 0; i < n; i++ {
		fp, ok := valueFingerprint(p.arr[i])
		if !ok {
			return nil, false
		}
		g := byFP[fp]
		if g == nil {
			g = &group{rep: i}
			byFP[fp] = g
			groups = append(groups, g)
		}
		g.idxs = append(g.idxs, i)
	}
	if len(groups) > 16 {
		return nil, false
	}
	tb := in.tb
	// smallest groups first; the largest group is the default
	for a := 0; a < len(groups); a++ {
		for b := a + 1; b < len(groups); b++ {
			if len(groups[b].idxs) < len(groups[a].idxs) {
				groups[a], groups[b] = groups[b], groups[a]
			}
		}
	}
	for gi, g := range groups {
		if gi == len(groups)-1 {
			return copyVal(p.arr[g.rep]), true
		}
		c := tb.False
		for _, i := range g.idxs {
			c = tb.BOr(c, tb.Eq(p.idx, tb.Const(p.idx.T, uint64(i))))
		}
		if in.decide(c) {
			return copyVal(p.arr[g.rep]), true
		}
	}
	return nil, false
}
