package main

// The symbolic SSA interpreter: frames, instructions, calls, panics.

import (
	"fmt"
	"go/token"
	"go/types"
	"os"
	"strings"

	"golang.org/x/tools/go/ssa"
)

// pathAbort ends the current path (not a Go-level panic of the target program).
type pathAbort struct {
	status string // "infeasible", "inconclusive", "unsupported", "unwind", "budget", "stop"
	msg    string
}

// targetPanic is a panic of the interpreted program.
type targetPanic struct {
	v   Value
	pos string
}

type deferred struct {
	fn   Value
	args []Value
	tail *deferred
}

type frame struct {
	in        *Interp
	caller    *frame
	fn        *ssa.Function
	block     *ssa.BasicBlock
	prevBlock *ssa.BasicBlock
	env       map[ssa.Value]Value
	locals    []Value
	defers    *deferred
	result    Value
	panicking bool
	panic     any
	ifCount   map[*ssa.If]int
	skipPhis  bool
	depth     int
}

type Interp struct {
	prog    *ssa.Program
	tb      *TB
	byteTab [256]*Term
	cfg     *RunConfig
	ex      *pathCtx // current path context (decisions, solver)
	globals map[*ssa.Global]*Value
	pkgInit map[*ssa.Package]int // 0 not started, 1 running, 2 done
	poison  map[*ssa.Global]string
	inInit  int
	steps   int64
	rtErrT  types.Type
	methods map[methodKey]*ssa.Function
	entered map[*ssa.Function]bool // functions of the repo entered on this worker
	curFr   *frame
	gmut    map[*ssa.Global]bool // globals written outside init
	pureBlk map[*ssa.BasicBlock]int8
	mutexes map[*Value]int
	spec    *specState
	syncMaps map[*Value]*Map
	fs       *memFS
	sched    *scheduler
}

type methodKey struct {
	t  types.Type
	id string
}

func NewInterp(prog *ssa.Program, cfg *RunConfig) *Interp {
	in := &Interp{prog: prog, cfg: cfg, tb: NewTB(),
		globals: map[*ssa.Global]*Value{}, pkgInit: map[*ssa.Package]int{}, poison: map[*ssa.Global]string{},
		methods: map[methodKey]*ssa.Function{}, entered: map[*ssa.Function]bool{}, gmut: map[*ssa.Global]bool{},
		pureBlk: map[*ssa.BasicBlock]int8{}, mutexes: map[*Value]int{}}
	for i := 0; i < 256; i++ {
		in.byteTab[i] = in.tb.Const(TU8, uint64(i))
	}
	if rt := prog.ImportedPackage("runtime"); rt != nil {
		if t := rt.Type("errorString"); t != nil {
			in.rtErrT = t.Type()
		}
	}
	return in
}

func (in *Interp) unsupported(format string, a ...any) {
	msg := fmt.Sprintf(format, a...)
	if in.curFr != nil {
		msg += " [in " + in.curFr.fn.String() + "]"
	}
	panic(pathAbort{"unsupported", msg})
}

func (in *Interp) inconclusive(format string, a ...any) {
	msg := fmt.Sprintf(format, a...)
	if in.curFr != nil {
		msg += " [in " + in.curFr.fn.String() + "]"
	}
	panic(pathAbort{"inconclusive", msg})
}

// goPanic raises a Go run-time panic in the interpreted program.
func (in *Interp) goPanic(msg string) {
	pos := ""
	if in.curFr != nil {
		pos = in.curFr.fn.String()
	}
	msg = strings.TrimPrefix(msg, "runtime error: ")
	if in.rtErrT != nil {
		panic(targetPanic{Iface{in.rtErrT, Str{c: msg}}, pos})
	}
	panic(targetPanic{Iface{types.Typ[types.String], Str{c: "runtime error: " + msg}}, pos})
}

func (in *Interp) posOf(p token.Pos) string {
	if p == token.NoPos {
		return "?"
	}
	ps := in.prog.Fset.Position(p)
	return fmt.Sprintf("%s:%d", ps.Filename, ps.Line)
}

// ---------------------------------------------------------------------------
// globals and lazy package initialisation

func (in *Interp) globalAddr(g *ssa.Global) *Value {
	if a, ok := in.globals[g]; ok {
		return a
	}
	a := new(Value)
	*a = in.zero(mustDeref(g.Type()))
	in.globals[g] = a
	return a
}

func mustDeref(t types.Type) types.Type {
	if p, ok := t.Underlying().(*types.Pointer); ok {
		return p.Elem()
	}
	panic(fmt.Sprintf("mustDeref: %v", t))
}

// ensureInit runs the package initialiser of pkg (best effort, once per worker).
func (in *Interp) ensureInit(pkg *ssa.Package) {
	if pkg == nil || in.pkgInit[pkg] != 0 {
		return
	}
	in.pkgInit[pkg] = 1
	initFn := pkg.Func("init")
	if initFn == nil || initFn.Blocks == nil {
		in.pkgInit[pkg] = 2
		return
	}
	if in.cfg.SkipInit[pkg.Pkg.Path()] {
		in.pkgInit[pkg] = 2
		return
	}
	in.inInit++
	savedFr := in.curFr
	savedEx := in.ex
	// package initialisation is concrete; it must not consume decisions
	in.ex = nil
	func() {
		defer func() {
			in.inInit--
			in.curFr = savedFr
			in.ex = savedEx
		}()
		in.runInitTolerant(initFn)
	}()
	in.pkgInit[pkg] = 2
}

// runInitTolerant executes a package init function; an instruction that cannot be
// executed poisons the values it defines (and, transitively, the globals stored from them).
func (in *Interp) runInitTolerant(fn *ssa.Function) {
	fr := &frame{in: in, fn: fn, env: map[ssa.Value]Value{}, depth: 1}
	fr.locals = make([]Value, len(fn.Locals))
	for i, l := range fn.Locals {
		fr.locals[i] = in.zero(mustDeref(l.Type()))
		fr.env[l] = Ptr{cell: &fr.locals[i]}
	}
	poisoned := map[ssa.Value]string{}
	fr.block = fn.Blocks[0]
	visits := 0
	for fr.block != nil {
		visits++
		if visits > 200000 {
			return
		}
		in.curFr = fr
		instrs := fr.block.Instrs
		// phis
		npi := 0
		for npi < len(instrs) {
			if _, ok := instrs[npi].(*ssa.Phi); !ok {
				break
			}
			npi++
		}
		if npi > 0 {
			pi := indexBlock(fr.block.Preds, fr.prevBlock)
			tmp := make([]Value, npi)
			for i := 0; i < npi; i++ {
				e := instrs[i].(*ssa.Phi).Edges[pi]
				if _, bad := poisoned[e]; bad {
					poisoned[instrs[i].(*ssa.Phi)] = poisoned[e]
					continue
				}
				tmp[i] = fr.get(e)
			}
			for i := 0; i < npi; i++ {
				fr.env[instrs[i].(*ssa.Phi)] = tmp[i]
			}
		}
		next := (*ssa.BasicBlock)(nil)
		for _, instr := range instrs[npi:] {
			// skip calls to other packages' init (lazy)
			if c, ok := instr.(*ssa.Call); ok {
				if f, ok := c.Call.Value.(*ssa.Function); ok && f.Name() == "init" && f.Pkg != nil && f.Pkg != fn.Pkg && f.Signature.Recv() == nil && f.Parent() == nil {
					continue
				}
			}
			// poisoned operands?
			why := ""
			for _, op := range instr.Operands(nil) {
				if *op == nil {
					continue
				}
				if w, bad := poisoned[*op]; bad {
					why = w
					break
				}
			}
			if why != "" {
				in.poisonInstr(instr, why, poisoned)
				if _, isIf := instr.(*ssa.If); isIf {
					return // cannot decide control flow; give up on the rest of this init
				}
				continue
			}
			var cont continuation
			err := in.try(func() { cont = in.visitInstr(fr, instr) })
			if err != "" {
				in.poisonInstr(instr, err, poisoned)
				switch instr.(type) {
				case *ssa.If, *ssa.Jump, *ssa.Return, *ssa.Panic:
					return
				}
				continue
			}
			if cont == kReturn {
				return
			}
			if cont == kJump {
				next = fr.block
				break
			}
		}
		if next == nil {
			return
		}
	}
}

func (in *Interp) poisonInstr(instr ssa.Instruction, why string, poisoned map[ssa.Value]string) {
	if v, ok := instr.(ssa.Value); ok {
		poisoned[v] = why
	}
	if st, ok := instr.(*ssa.Store); ok {
		if g, ok := st.Addr.(*ssa.Global); ok {
			in.poison[g] = why
		}
	}
}

// try runs f and converts aborts/panics into an error string.
func (in *Interp) try(f func()) (err string) {
	defer func() {
		if r := recover(); r != nil {
			switch r := r.(type) {
			case pathAbort:
				err = r.status + ": " + r.msg
			case targetPanic:
				err = "panic in init: " + in.panicString(r.v)
			default:
				err = fmt.Sprintf("engine error: %v", r)
			}
		}
	}()
	f()
	return ""
}

func (in *Interp) panicString(v Value) string {
	if i, ok := v.(Iface); ok {
		if s, ok := i.v.(Str); ok {
			if in.rtErrT != nil && i.t == in.rtErrT {
				return "runtime error: " + s.c
			}
			if s.b == nil {
				return s.c
			}
			return s.String()
		}
		if i.t != nil {
			// error values: try errorString-like {s string}
			if p, ok := i.v.(Ptr); ok && p.cell != nil {
				if st, ok := (*p.cell).(Struct); ok && len(st) >= 1 {
					if s, ok := st[0].(Str); ok && s.b == nil {
						return i.t.String() + ": " + s.c
					}
				}
			}
			return "panic value of type " + i.t.String()
		}
		return "panic(nil)"
	}
	return fmt.Sprintf("%v", v)
}

func indexBlock(bs []*ssa.BasicBlock, b *ssa.BasicBlock) int {
	for i, x := range bs {
		if x == b {
			return i
		}
	}
	return -1
}

// ---------------------------------------------------------------------------

func (fr *frame) get(key ssa.Value) Value {
	switch key := key.(type) {
	case nil:
		return nil
	case *ssa.Function:
		return key
	case *ssa.Builtin:
		return key
	case *ssa.Const:
		return fr.in.constValue(key)
	case *ssa.Global:
		in := fr.in
		if key.Pkg != nil {
			in.ensureInit(key.Pkg)
		}
		if why, bad := in.poison[key]; bad && in.inInit == 0 {
			in.unsupported("global %s was not initialised (%s)", key.String(), why)
		}
		return Ptr{cell: in.globalAddr(key)}
	}
	if r, ok := fr.env[key]; ok {
		return r
	}
	panic(fmt.Sprintf("get: no value for %T: %v in %s", key, key.Name(), fr.fn))
}

type continuation int

const (
	kNext continuation = iota
	kReturn
	kJump
)

func (in *Interp) load(t types.Type, p Ptr) Value {
	if p.idx != nil {
		return in.loadSym(t, p)
	}
	if p.cell == nil {
		in.goPanic("runtime error: invalid memory address or nil pointer dereference")
	}
	v := copyVal(*p.cell)
	if v == nil {
		in.unsupported("load of uninitialised cell")
	}
	// reinterpretation through unsafe casts: coerce scalar signedness
	switch x := v.(type) {
	case *Term:
		if ty, ok := scalarTyp(t); ok && ty != x.T {
			return in.coerce(x, ty)
		}
	case Slice:
		// *(*string)(unsafe.Pointer(&byteSlice)): view a byte slice header as a string
		if b, ok := t.Underlying().(*types.Basic); ok && b.Info()&types.IsString != 0 {
			bs := make([]*Term, len(x.a))
			for i, c := range x.a {
				bs[i] = c.(*Term)
			}
			return in.mkStr(bs)
		}
	case Str:
		// *(*[]byte)(unsafe.Pointer(&s)): view a string header as a byte slice (read-only use)
		if _, ok := t.Underlying().(*types.Slice); ok {
			bs := in.strBytes(x)
			a := make([]Value, len(bs))
			for i, b := range bs {
				a[i] = b
			}
			return Slice{a: a}
		}
	}
	return v
}

func (in *Interp) coerce(tm *Term, ty Typ) *Term {
	switch {
	case tm.T == ty:
		return tm
	case tm.T.K == KInt && ty.K == KInt && tm.T.W == ty.W:
		return in.tb.Conv(tm, ty)
	case tm.T.K == KInt && ty.K == KFloat && tm.T.W == ty.W:
		return in.tb.Bits2F(tm)
	case tm.T.K == KFloat && ty.K == KInt && tm.T.W == ty.W:
		return in.tb.Conv(in.tb.F2Bits(tm), ty)
	}
	in.unsupported("memory reinterpretation %v as %v", tm.T, ty)
	return nil
}

func (in *Interp) loadSym(t types.Type, p Ptr) Value {
	n := len(p.arr)
	if n == 0 {
		in.goPanic("runtime error: index out of range")
	}
	if _, ok := p.arr[0].(*Term); ok && n <= 512 {
		tb := in.tb
		r := p.arr[n-1].(*Term)
		for i := n - 2; i >= 0; i-- {
			r = tb.Ite(tb.Eq(p.idx, tb.Const(p.idx.T, uint64(i))), p.arr[i].(*Term), r)
		}
		if ty, ok := scalarTyp(t); ok && ty != r.T {
			return in.coerce(r, ty)
		}
		return r
	}
	if v, ok := in.loadGrouped(t, p); ok {
		return v
	}
	return in.load(t, in.concretePtr(p))
}

func (in *Interp) concretePtr(p Ptr) Ptr {
	if p.idx == nil {
		return p
	}
	i := in.concretize(p.idx, "index")
	if i < 0 || int(i) >= len(p.arr) {
		in.goPanic("runtime error: index out of range")
	}
	return Ptr{cell: &p.arr[i], arr: p.arr[i:]}
}

func (in *Interp) store(p Ptr, v Value) {
	if sp := in.spec; sp != nil {
		// speculative side block of a merged branch: only scalar stores to concrete cells
		if _, ok := v.(*Term); !ok || p.idx != nil || p.cell == nil {
			panic(pathAbort{"nospec", "store not mergeable"})
		}
		if _, ok := (*p.cell).(*Term); !ok {
			panic(pathAbort{"nospec", "store not mergeable"})
		}
		if !sp.seen[p.cell] {
			sp.seen[p.cell] = true
			sp.log = append(sp.log, specWrite{p.cell, *p.cell})
		}
		*p.cell = v
		return
	}
	if p.idx != nil {
		n := len(p.arr)
		if nv, ok := v.(*Term); ok && n <= 512 {
			tb := in.tb
			for i := 0; i < n; i++ {
				old, ok := p.arr[i].(*Term)
				if !ok {
					in.store(in.concretePtr(p), v)
					return
				}
				nvv := nv
				if nvv.T != old.T {
					nvv = in.coerce(nvv, old.T)
				}
				p.arr[i] = tb.Ite(tb.Eq(p.idx, tb.Const(p.idx.T, uint64(i))), nvv, old)
			}
			return
		}
		p = in.concretePtr(p)
	}
	if p.cell == nil {
		in.goPanic("runtime error: invalid memory address or nil pointer dereference")
	}
	storeInto(p.cell, v)
}

// indexAddr computes &arr[idx] with bounds checking.
func (in *Interp) indexAddr(arr []Value, idx *Term) Ptr {
	n := len(arr)
	if idx.IsConst() {
		i := idx.SVal()
		if i < 0 || i >= int64(n) {
			in.goPanic(fmt.Sprintf("runtime error: index out of range [%d] with length %d", i, n))
		}
		return Ptr{cell: &arr[i], arr: arr[i:cap(arr)]}
	}
	tb := in.tb
	inb := in.inBounds(idx, n)
	_ = tb
	if n == 0 || !in.decide(inb) {
		in.goPanic(fmt.Sprintf("runtime error: index out of range [symbolic] with length %d", n))
	}
	if n == 1 {
		return Ptr{cell: &arr[0], arr: arr[0:cap(arr)]}
	}
	return Ptr{arr: arr[:n], idx: idx}
}

func (in *Interp) asInt(v Value, what string) int64 {
	t := v.(*Term)
	if t.IsConst() {
		return t.SVal()
	}
	return in.concretize(t, what)
}

// ---------------------------------------------------------------------------

func (in *Interp) visitInstr(fr *frame, instr ssa.Instruction) continuation {
	in.steps++
	if in.steps > in.cfg.MaxSteps {
		panic(pathAbort{"budget", fmt.Sprintf("step budget %d exhausted", in.cfg.MaxSteps)})
	}
	switch instr := instr.(type) {
	case *ssa.DebugRef:
	case *ssa.UnOp:
		fr.env[instr] = in.unop(fr, instr, fr.get(instr.X))
	case *ssa.BinOp:
		fr.env[instr] = in.binop(instr.Op, instr.X.Type(), fr.get(instr.X), fr.get(instr.Y))
	case *ssa.Call:
		fn, args := in.prepareCall(fr, &instr.Call)
		fr.env[instr] = in.call(fr, fn, args)
		in.curFr = fr
	case *ssa.ChangeInterface:
		fr.env[instr] = fr.get(instr.X)
	case *ssa.ChangeType:
		fr.env[instr] = fr.get(instr.X)
	case *ssa.Convert:
		fr.env[instr] = in.conv(instr.Type(), instr.X.Type(), fr.get(instr.X))
	case *ssa.MultiConvert:
		fr.env[instr] = in.conv(instr.Type(), instr.X.Type(), fr.get(instr.X))
	case *ssa.SliceToArrayPointer:
		s := fr.get(instr.X).(Slice)
		n := int(mustDeref(instr.Type()).Underlying().(*types.Array).Len())
		if len(s.a) < n {
			in.goPanic("runtime error: cannot convert slice with length less than array length")
		}
		if s.a == nil {
			fr.env[instr] = Ptr{}
		} else {
			// view: the array shares the slice's cells
			cell := new(Value)
			*cell = Array(s.a[:n:n])
			fr.env[instr] = Ptr{cell: cell}
		}
	case *ssa.MakeInterface:
		fr.env[instr] = Iface{t: instr.X.Type(), v: fr.get(instr.X)}
	case *ssa.Extract:
		fr.env[instr] = fr.get(instr.Tuple).(Tuple)[instr.Index]
	case *ssa.Slice:
		fr.env[instr] = in.sliceOp(instr, fr.get(instr.X), fr.get(instr.Low), fr.get(instr.High), fr.get(instr.Max))
	case *ssa.Return:
		switch len(instr.Results) {
		case 0:
		case 1:
			fr.result = fr.get(instr.Results[0])
		default:
			res := make(Tuple, len(instr.Results))
			for i, r := range instr.Results {
				res[i] = fr.get(r)
			}
			fr.result = res
		}
		fr.block = nil
		return kReturn
	case *ssa.RunDefers:
		fr.runDefers()
	case *ssa.Panic:
		panic(targetPanic{fr.get(instr.X), in.posOf(instr.Pos())})
	case *ssa.Send:
		in.chanSend(fr.get(instr.Chan).(*Chan), fr.get(instr.X))
	case *ssa.Store:
		if g, ok := instr.Addr.(*ssa.Global); ok && in.inInit == 0 {
			in.gmut[g] = true
		}
		in.store(fr.get(instr.Addr).(Ptr), fr.get(instr.Val))
	case *ssa.If:
		return in.doIf(fr, instr)
	case *ssa.Jump:
		fr.prevBlock, fr.block = fr.block, fr.block.Succs[0]
		return kJump
	case *ssa.Defer:
		if instr.DeferStack != nil {
			in.unsupported("defer with explicit defer stack (range-over-func)")
		}
		fn, args := in.prepareCall(fr, &instr.Call)
		fr.defers = &deferred{fn: fn, args: args, tail: fr.defers}
	case *ssa.Go:
		fn, args := in.prepareCall(fr, &instr.Call)
		in.goStmt(fr, fn, args)
	case *ssa.MakeChan:
		n := in.asInt(fr.get(instr.Size), "chan size")
		fr.env[instr] = &Chan{cap: int(n), elem: instr.Type().Underlying().(*types.Chan).Elem()}
	case *ssa.Alloc:
		t := mustDeref(instr.Type())
		if instr.Heap {
			c := new(Value)
			*c = in.zero(t)
			fr.env[instr] = Ptr{cell: c}
		} else {
			p := fr.env[instr].(Ptr)
			*p.cell = in.zero(t)
		}
	case *ssa.MakeSlice:
		n := in.asInt(fr.get(instr.Len), "make len")
		c := in.asInt(fr.get(instr.Cap), "make cap")
		if n < 0 || c < n {
			in.goPanic("runtime error: makeslice: len out of range")
		}
		if c > 1<<22 {
			in.unsupported("make([]T, %d): too large", c)
		}
		et := instr.Type().Underlying().(*types.Slice).Elem()
		a := make([]Value, c)
		if _, ok := scalarTyp(et); ok {
			z := in.zero(et)
			for i := range a {
				a[i] = z
			}
		} else {
			for i := range a {
				a[i] = in.zero(et)
			}
		}
		fr.env[instr] = Slice{a: a[:n]}
	case *ssa.MakeMap:
		fr.env[instr] = in.newMap(instr.Type().Underlying().(*types.Map).Key())
	case *ssa.Range:
		switch x := fr.get(instr.X).(type) {
		case *Map:
			fr.env[instr] = &mapIter{m: x}
		case Str:
			fr.env[instr] = &strIter{s: x}
		default:
			in.unsupported("range over %T", x)
		}
	case *ssa.Next:
		switch it := fr.get(instr.Iter).(type) {
		case *mapIter:
			fr.env[instr] = it.next(in)
		case *strIter:
			fr.env[instr] = in.strIterNext(it)
		}
	case *ssa.FieldAddr:
		p := fr.get(instr.X).(Ptr)
		if p.idx != nil {
			p = in.concretePtr(p)
		}
		if p.cell == nil {
			in.goPanic("runtime error: invalid memory address or nil pointer dereference")
		}
		st, ok := (*p.cell).(Struct)
		if !ok {
			in.unsupported("FieldAddr on non-struct cell %T", *p.cell)
		}
		fr.env[instr] = Ptr{cell: &st[instr.Field]}
	case *ssa.Field:
		fr.env[instr] = fr.get(instr.X).(Struct)[instr.Field]
	case *ssa.IndexAddr:
		x := fr.get(instr.X)
		idx := fr.get(instr.Index).(*Term)
		switch x := x.(type) {
		case Slice:
			fr.env[instr] = in.indexAddr(x.a, idx)
		case Ptr: // *array
			if x.idx != nil {
				x = in.concretePtr(x)
			}
			if x.cell == nil {
				in.goPanic("runtime error: invalid memory address or nil pointer dereference")
			}
			fr.env[instr] = in.indexAddr((*x.cell).(Array), idx)
		default:
			panic(fmt.Sprintf("IndexAddr on %T", x))
		}
	case *ssa.Index:
		x := fr.get(instr.X)
		idx := fr.get(instr.Index).(*Term)
		switch x := x.(type) {
		case Array:
			p := in.indexAddr(x, idx)
			fr.env[instr] = in.load(instr.Type(), p)
		case Str:
			fr.env[instr] = in.strIndex(x, idx)
		default:
			panic(fmt.Sprintf("Index on %T", x))
		}
	case *ssa.Lookup:
		fr.env[instr] = in.lookup(instr, fr.get(instr.X), fr.get(instr.Index))
	case *ssa.MapUpdate:
		in.mapSet(fr.get(instr.Map).(*Map), fr.get(instr.Key), copyVal(fr.get(instr.Value)))
	case *ssa.TypeAssert:
		fr.env[instr] = in.typeAssert(instr, fr.get(instr.X).(Iface))
	case *ssa.MakeClosure:
		var b []Value
		for _, x := range instr.Bindings {
			b = append(b, fr.get(x))
		}
		fr.env[instr] = &Closure{instr.Fn.(*ssa.Function), b}
	case *ssa.Select:
		fr.env[instr] = in.selectOp(fr, instr)
	case *ssa.Phi:
		panic("phi in instruction stream")
	default:
		in.unsupported("instruction %T", instr)
	}
	return kNext
}

func (in *Interp) strIndex(s Str, idx *Term) *Term {
	if s.opaque {
		in.inconclusive("indexing an opaque (formatted) string")
	}
	n := s.Len()
	if idx.IsConst() {
		i := idx.SVal()
		if i < 0 || i >= int64(n) {
			in.goPanic(fmt.Sprintf("runtime error: index out of range [%d] with length %d", i, n))
		}
		return in.strAt(s, int(i))
	}
	tb := in.tb
	inb := in.inBounds(idx, n)
	if n == 0 || !in.decide(inb) {
		in.goPanic(fmt.Sprintf("runtime error: index out of range [symbolic] with length %d", n))
	}
	r := in.strAt(s, n-1)
	for i := n - 2; i >= 0; i-- {
		r = tb.Ite(tb.Eq(idx, tb.Const(idx.T, uint64(i))), in.strAt(s, i), r)
	}
	return r
}

func (in *Interp) strIterNext(it *strIter) Tuple {
	tb := in.tb
	if it.pos >= it.s.Len() {
		return Tuple{tb.False, tb.Int(TI64, 0), tb.Int(TI32, 0)}
	}
	if it.s.concrete() {
		rest := it.s.c[it.pos:]
		for i, r := range rest {
			_ = i
			// first rune only
			n := len(string(r))
			if r == 0xFFFD {
				// invalid encodings advance by 1, valid U+FFFD by 3
				if !strings.HasPrefix(rest, "�") {
					n = 1
				}
			}
			p := it.pos
			it.pos += n
			return Tuple{tb.True, tb.Int(TI64, int64(p)), tb.Int(TI32, int64(r))}
		}
	}
	// symbolic bytes: ASCII is decided by the solver, non-ASCII is out of reach
	b := in.strAt(it.s, it.pos)
	if in.decide(tb.Lt(b, tb.Const(TU8, 0x80))) {
		p := it.pos
		it.pos++
		return Tuple{tb.True, tb.Int(TI64, int64(p)), tb.Conv(b, TI32)}
	}
	in.inconclusive("range over string with symbolic non-ASCII bytes")
	return nil
}

func (in *Interp) lookup(instr *ssa.Lookup, x, idx Value) Value {
	switch x := x.(type) {
	case *Map:
		e := in.mapFind(x, idx)
		var v Value
		if e != nil {
			v = copyVal(e.val)
		} else {
			v = in.zero(instr.X.Type().Underlying().(*types.Map).Elem())
		}
		if instr.CommaOk {
			return Tuple{v, in.tb.Bool(e != nil)}
		}
		return v
	case Str:
		return in.strIndex(x, idx.(*Term))
	}
	panic(fmt.Sprintf("lookup on %T", x))
}

func (in *Interp) sliceOp(instr *ssa.Slice, x, lo, hi, max Value) Value {
	geti := func(v Value, def int) int {
		if v == nil {
			return def
		}
		return int(in.asInt(v, "slice bound"))
	}
	switch x := x.(type) {
	case Str:
		if x.opaque {
			in.inconclusive("slicing an opaque (formatted) string")
		}
		l := geti(lo, 0)
		h := geti(hi, x.Len())
		if l < 0 || h > x.Len() || l > h {
			in.goPanic(fmt.Sprintf("runtime error: slice bounds out of range [%d:%d] with length %d", l, h, x.Len()))
		}
		return in.strSlice(x, l, h)
	case Slice:
		l := geti(lo, 0)
		h := geti(hi, len(x.a))
		m := geti(max, cap(x.a))
		if l < 0 || h > cap(x.a) || l > h || m > cap(x.a) || h > m {
			in.goPanic(fmt.Sprintf("runtime error: slice bounds out of range [%d:%d:%d] with capacity %d", l, h, m, cap(x.a)))
		}
		if x.a == nil {
			return Slice{}
		}
		return Slice{a: x.a[l:h:m]}
	case Ptr: // *array
		if x.idx != nil {
			x = in.concretePtr(x)
		}
		if x.cell == nil {
			in.goPanic("runtime error: invalid memory address or nil pointer dereference")
		}
		a := (*x.cell).(Array)
		l := geti(lo, 0)
		h := geti(hi, len(a))
		m := geti(max, len(a))
		if l < 0 || h > len(a) || l > h || m > len(a) || h > m {
			in.goPanic(fmt.Sprintf("runtime error: slice bounds out of range [%d:%d:%d] with capacity %d", l, h, m, len(a)))
		}
		return Slice{a: []Value(a)[l:h:m]}
	}
	panic(fmt.Sprintf("slice of %T", x))
}

func (in *Interp) typeAssert(instr *ssa.TypeAssert, itf Iface) Value {
	var ok bool
	var v Value
	if idst, isI := instr.AssertedType.Underlying().(*types.Interface); isI {
		if itf.t != nil && in.implements(itf.t, idst) {
			ok = true
			v = itf
		}
	} else if itf.t != nil && types.Identical(itf.t, instr.AssertedType) {
		ok = true
		v = itf.v
	}
	if instr.CommaOk {
		if !ok {
			v = in.zero(instr.AssertedType)
		}
		return Tuple{v, in.tb.Bool(ok)}
	}
	if !ok {
		have := "nil"
		if itf.t != nil {
			have = itf.t.String()
		}
		in.goPanic(fmt.Sprintf("interface conversion: interface is %s, not %s", have, instr.AssertedType))
	}
	return v
}

func (in *Interp) implements(t types.Type, iface *types.Interface) bool {
	if iface.NumMethods() == 0 {
		return true
	}
	ms := in.prog.MethodSets.MethodSet(t)
	for i := 0; i < iface.NumMethods(); i++ {
		m := iface.Method(i)
		if ms.Lookup(m.Pkg(), m.Name()) == nil {
			return false
		}
	}
	return true
}

// ---------------------------------------------------------------------------
// calls

func (in *Interp) lookupMethod(t types.Type, m *types.Func) *ssa.Function {
	k := methodKey{t, m.Id()}
	if f, ok := in.methods[k]; ok {
		return f
	}
	f := in.prog.LookupMethod(t, m.Pkg(), m.Name())
	in.methods[k] = f
	return f
}

func (in *Interp) prepareCall(fr *frame, call *ssa.CallCommon) (Value, []Value) {
	v := fr.get(call.Value)
	var fn Value
	var args []Value
	if call.Method == nil {
		fn = v
	} else {
		recv, ok := v.(Iface)
		if !ok {
			panic(fmt.Sprintf("invoke on %T", v))
		}
		if recv.t == nil {
			in.goPanic("runtime error: invalid memory address or nil pointer dereference (method call on nil interface)")
		}
		if no, ok := recv.v.(*nativeObj); ok {
			return no.method(in, call.Method.Name()), in.getArgs(fr, call.Args, nil)
		}
		f := in.lookupMethod(recv.t, call.Method)
		if f == nil {
			panic(fmt.Sprintf("method set of %v lacks %s", recv.t, call.Method))
		}
		fn = f
		args = append(args, recv.v)
	}
	return fn, in.getArgs(fr, call.Args, args)
}

func (in *Interp) getArgs(fr *frame, xs []ssa.Value, args []Value) []Value {
	for _, a := range xs {
		args = append(args, fr.get(a))
	}
	return args
}

var traceCalls = os.Getenv("VERIF_TRACECALLS") != ""

func (in *Interp) call(caller *frame, fn Value, args []Value) Value {
	switch fn := fn.(type) {
	case *ssa.Function:
		if fn == nil {
			in.goPanic("runtime error: invalid memory address or nil pointer dereference (call of nil func)")
		}
		return in.callSSA(caller, fn, args, nil)
	case *Closure:
		return in.callSSA(caller, fn.fn, args, fn.env)
	case *ssa.Builtin:
		return in.callBuiltin(caller, fn, args)
	case *NativeFn:
		return fn.f(in, args)
	}
	panic(fmt.Sprintf("call of %T", fn))
}

func (in *Interp) callSSA(caller *frame, fn *ssa.Function, args []Value, env []Value) Value {
	if fn.Parent() == nil {
		name := fn.String()
		if fn.Origin() != nil {
			name = fn.Origin().String()
		}
		if st, ok := in.cfg.stubFor(name); ok {
			return in.runStub(caller, fn, st, args)
		}
		if in.sched != nil {
			if r, handled := in.sched.intercept(name, caller, fn, args, intrinsics[name]); handled {
				return r
			}
		}
		if ix, ok := intrinsics[name]; ok {
			if r, handled := ix(in, caller, fn, args); handled {
				return r
			}
		}
		if fn.Blocks == nil {
			in.unsupported("no body for function %s", name)
		}
		if fn.Pkg != nil && in.pkgInit[fn.Pkg] == 0 {
			in.ensureInit(fn.Pkg)
		}
	}
	if fn.TypeParams().Len() > 0 && len(fn.TypeArgs()) == 0 {
		in.unsupported("uninstantiated generic function %s", fn)
	}
	depth := 1
	if caller != nil {
		depth = caller.depth + 1
	}
	if depth > in.cfg.MaxDepth {
		panic(pathAbort{"budget", fmt.Sprintf("call depth %d exceeded in %s", in.cfg.MaxDepth, fn)})
	}
	if in.inInit == 0 && !in.entered[fn] {
		in.entered[fn] = true
	}
	if traceCalls && in.inInit == 0 {
		fmt.Fprintf(os.Stderr, "CALL %*s%s\n", depth, "", fn.String())
	}
	fr := &frame{in: in, caller: caller, fn: fn, depth: depth}
	fr.env = make(map[ssa.Value]Value, 16)
	fr.block = fn.Blocks[0]
	if len(fn.Locals) > 0 {
		fr.locals = make([]Value, len(fn.Locals))
		for i, l := range fn.Locals {
			fr.locals[i] = in.zero(mustDeref(l.Type()))
			fr.env[l] = Ptr{cell: &fr.locals[i]}
		}
	}
	if len(args) != len(fn.Params) {
		panic(fmt.Sprintf("call %s: %d args for %d params", fn, len(args), len(fn.Params)))
	}
	for i, p := range fn.Params {
		fr.env[p] = args[i]
	}
	for i, fv := range fn.FreeVars {
		fr.env[fv] = env[i]
	}
	for fr.block != nil {
		in.runFrame(fr)
	}
	in.curFr = caller
	return fr.result
}

func (in *Interp) runFrame(fr *frame) {
	defer func() {
		if fr.block == nil {
			return // normal return
		}
		r := recover()
		if pa, ok := r.(pathAbort); ok {
			panic(pa)
		}
		if _, ok := r.(targetPanic); !ok {
			// engine bug: propagate with context
			panic(r)
		}
		fr.panicking = true
		fr.panic = r
		fr.runDefers()
		fr.block = fr.fn.Recover
		if fr.block == nil {
			// recovered in a function without named results: return zero values
			fr.result = in.zeroResults(fr.fn)
		}
	}()
	for {
		in.curFr = fr
		instrs := fr.block.Instrs
		npi := 0
		for npi < len(instrs) {
			if _, ok := instrs[npi].(*ssa.Phi); !ok {
				break
			}
			npi++
		}
		if fr.skipPhis {
			fr.skipPhis = false
		} else if npi > 0 {
			pi := indexBlock(fr.block.Preds, fr.prevBlock)
			if npi == 1 {
				phi := instrs[0].(*ssa.Phi)
				fr.env[phi] = fr.get(phi.Edges[pi])
			} else {
				tmp := make([]Value, npi)
				for i := 0; i < npi; i++ {
					tmp[i] = fr.get(instrs[i].(*ssa.Phi).Edges[pi])
				}
				for i := 0; i < npi; i++ {
					fr.env[instrs[i].(*ssa.Phi)] = tmp[i]
				}
			}
		}
		for _, instr := range instrs[npi:] {
			if in.visitInstr(fr, instr) == kReturn {
				return
			}
		}
	}
}

func (in *Interp) zeroResults(fn *ssa.Function) Value {
	res := fn.Signature.Results()
	switch res.Len() {
	case 0:
		return nil
	case 1:
		return in.zero(res.At(0).Type())
	}
	return in.zero(res)
}

func (fr *frame) runDefers() {
	for d := fr.defers; d != nil; d = d.tail {
		fr.runDefer(d)
	}
	fr.defers = nil
	if fr.panicking {
		panic(fr.panic)
	}
}

func (fr *frame) runDefer(d *deferred) {
	var ok bool
	defer func() {
		if !ok {
			r := recover()
			if pa, isAbort := r.(pathAbort); isAbort {
				panic(pa)
			}
			if _, isTP := r.(targetPanic); !isTP {
				panic(r)
			}
			fr.panicking = true
			fr.panic = r
		}
	}()
	fr.in.call(fr, d.fn, d.args)
	fr.in.curFr = fr
	ok = true
}

func (in *Interp) doRecover(caller *frame) Value {
	if caller != nil && !caller.panicking && caller.caller != nil && caller.caller.panicking {
		caller.caller.panicking = false
		p := caller.caller.panic
		caller.caller.panic = nil
		if tp, ok := p.(targetPanic); ok {
			if i, ok := tp.v.(Iface); ok {
				return i
			}
			return Iface{}
		}
		panic(p)
	}
	return Iface{}
}

// runStub applies a configured override.
func (in *Interp) runStub(caller *frame, fn *ssa.Function, st string, args []Value) Value {
	switch {
	case st == "noop" || st == "zero":
		return in.zeroResults(fn)
	case st == "fixed_now":
		// time.Now() = 2020-09-13T12:26:40Z, for code whose use of the clock is irrelevant to the property
		tp := in.prog.ImportedPackage("time")
		return in.callSSA(caller, tp.Func("Unix"), []Value{in.tb.Int(TI64, 1600000000), in.tb.Int(TI64, 0)}, nil)
	case strings.HasPrefix(st, "harness:"):
		name := strings.TrimPrefix(st, "harness:")
		h := in.cfg.lookupHarnessFunc(name)
		if h == nil {
			in.unsupported("stub %s: harness function %s not found", fn, name)
		}
		return in.callSSA(caller, h, args, nil)
	}
	in.unsupported("unknown stub kind %q for %s", st, fn)
	return nil
}
