package main

// One-shot fallback: a query the incremental solver process could not decide within its timeout is
// re-posed to a fresh, non-incremental solver run (full preprocessing / bit-blasting tactics), which
// is markedly stronger on large bit-vector goals. Used only for assertion queries.

import (
	"fmt"
	"os"
	"os/exec"
	"strings"
	"time"
)

func (s *Solver) oneShot(extra *Term, vars []*Term, timeoutS int) (Result, map[string]uint64) {
	tmp := &Solver{kind: s.kind, intMode: s.intMode, tb: s.tb, defined: map[int]bool{}, declared: map[string]bool{}}
	for _, v := range vars {
		tmp.ref(v)
	}
	for _, t := range s.asserted {
		r := tmp.ref(t)
		fmt.Fprintf(&tmp.buf, "(assert %s)\n", r)
	}
	if extra != nil {
		r := tmp.ref(extra)
		fmt.Fprintf(&tmp.buf, "(assert %s)\n", r)
	}
	tmp.buf.WriteString("(check-sat)\n")
	if len(vars) > 0 {
		tmp.buf.WriteString("(get-value (")
		for _, v := range vars {
			tmp.buf.WriteString(varName(v.Name))
			tmp.buf.WriteByte(' ')
		}
		tmp.buf.WriteString("))\n")
	}
	f, err := os.CreateTemp("", "symgo-oneshot-*.smt2")
	if err != nil {
		return Unknown, nil
	}
	defer os.Remove(f.Name())
	f.WriteString(tmp.buf.String())
	f.Close()
	bin := "z3-new"
	if s.kind == "z3" {
		bin = "z3"
	}
	t0 := time.Now()
	out, _ := exec.Command(bin, "-smt2", fmt.Sprintf("-T:%d", timeoutS), f.Name()).CombinedOutput()
	s.Stats.SolverTime += time.Since(t0)
	s.Stats.OneShots++
	lines := strings.Split(strings.TrimSpace(string(out)), "\n")
	if len(lines) == 0 {
		return Unknown, nil
	}
	switch strings.TrimSpace(lines[0]) {
	case "unsat":
		return Unsat, nil
	case "sat":
		m := parseModel(strings.Join(lines[1:], " "), vars)
		if m == nil {
			return Unknown, nil
		}
		return Sat, m
	}
	return Unknown, nil
}
