package main

// knownZero computes, syntactically, a mask of bits of an integer term that are zero for every
// valuation. Used (a) by the term constructors to fold masks that select only known-zero bits
// (e.g. time.Time's hasMonotonic flag of a wall value built from a 30-bit nanosecond field), and
// (b) by the integer back-end to emit  a | b  as  a + b  when the operands cannot overlap.

func (tb *TB) knownZero(t *Term) uint64 {
	if t.T.K != KInt {
		return 0
	}
	if t.kzSet {
		return t.kz
	}
	m := mask(t.T.W)
	var r uint64
	switch t.Op {
	case OpConst:
		r = ^t.V
	case OpAnd:
		r = tb.knownZero(t.A) | tb.knownZero(t.B)
	case OpOr, OpXor:
		r = tb.knownZero(t.A) & tb.knownZero(t.B)
	case OpShl:
		if t.B.IsConst() {
			k := t.B.V
			if k >= uint64(t.T.W) {
				r = ^uint64(0)
			} else {
				r = (tb.knownZero(t.A) << k) | ((uint64(1) << k) - 1)
			}
		}
	case OpShr:
		if t.B.IsConst() && !t.A.T.S {
			k := t.B.V
			if k >= uint64(t.T.W) {
				r = ^uint64(0)
			} else {
				r = (tb.knownZero(t.A) >> k) | ^(mask(t.T.W) >> k)
			}
		}
	case OpConv:
		a := t.A
		if a.T.K == KInt {
			if !a.T.S || a.T.W >= t.T.W {
				r = tb.knownZero(a) & mask(a.T.W)
				if a.T.W < t.T.W && !a.T.S {
					r |= ^mask(a.T.W)
				}
			}
		}
	case OpIte:
		r = tb.knownZero(t.B) & tb.knownZero(t.C)
	case OpRem:
		// unsigned x % c  <  c
		if !t.A.T.S && t.B.IsConst() && t.B.V > 0 {
			r = ^((uint64(1) << uint(64-leadingZeros64(t.B.V-1))) - 1)
			if t.B.V == 1 {
				r = ^uint64(0)
			}
		}
	}
	r &= m
	r |= ^m
	t.kz, t.kzSet = r, true
	return r
}

func leadingZeros64(x uint64) int {
	n := 0
	for i := 63; i >= 0; i-- {
		if x>>uint(i)&1 == 1 {
			break
		}
		n++
	}
	return n
}

func (s *Solver) knownZero(t *Term) uint64 { return s.tb.knownZero(t) }
