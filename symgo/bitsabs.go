package main

// knownZero computes, syntactically, a mask of bits of an integer term that are zero for
// every valuation. Used by the integer back-end to emit  a | b  as  a + b  when the operands
// cannot have a one in the same position (byte reassembly, varints, bit packing).

func (s *Solver) knownZero(t *Term) uint64 {
	if t.T.K != KInt {
		return 0
	}
	if v, ok := s.kz[t.id]; ok {
		return v
	}
	m := mask(t.T.W)
	var r uint64
	switch t.Op {
	case OpConst:
		r = ^t.V
	case OpAnd:
		r = s.knownZero(t.A) | s.knownZero(t.B)
	case OpOr, OpXor:
		r = s.knownZero(t.A) & s.knownZero(t.B)
	case OpShl:
		if t.B.IsConst() {
			k := t.B.V
			if k >= uint64(t.T.W) {
				r = ^uint64(0)
			} else {
				r = (s.knownZero(t.A) << k) | ((uint64(1) << k) - 1)
			}
		}
	case OpShr:
		if t.B.IsConst() && !t.A.T.S {
			k := t.B.V
			if k >= uint64(t.T.W) {
				r = ^uint64(0)
			} else {
				r = (s.knownZero(t.A) >> k) | ^(mask(t.T.W) >> k)
			}
		}
	case OpConv:
		a := t.A
		if a.T.K == KInt {
			if !a.T.S || a.T.W >= t.T.W {
				// zero extension or truncation: low bits carry over, bits above the source width are zero
				r = s.knownZero(a) & mask(a.T.W)
				if a.T.W < t.T.W && !a.T.S {
					r |= ^mask(a.T.W)
				}
			}
		}
	case OpIte:
		r = s.knownZero(t.B) & s.knownZero(t.C)
	}
	r &= m
	r |= ^m // bits above the width are not part of the value
	if s.kz == nil {
		s.kz = map[int]uint64{}
	}
	s.kz[t.id] = r
	return r
}
