package main

import (
	"crypto/sha256"
	"encoding/json"
	"flag"
	"fmt"
	"os"
	"path/filepath"
	"runtime"
	"sort"
	"strconv"
	"strings"
	"sync"
	"time"

	"golang.org/x/tools/go/packages"
	"golang.org/x/tools/go/ssa"
)

const modulePath = "github.com/influxdata/influxdb/v2"

// repoDir is /repo for every registered command; VERIF_REPO points the developer's self-test at a
// scratch copy so that seeded patches are never applied to /repo while other checks run.
var repoDir = "/repo"

var verifDir = "/verif"

// cacheTag separates the native-replay caches of concurrently running invocations.
var cacheTag = ""

func pkgDir(importPath string) string {
	if importPath == modulePath {
		return repoDir
	}
	return filepath.Join(repoDir, strings.TrimPrefix(importPath, modulePath+"/"))
}

type loaded struct {
	prog    *ssa.Program
	pkgs    map[string]*ssa.Package
	errs    map[string][]string // package path -> type errors (only for requested packages)
	loadDur time.Duration
	ssaDur  time.Duration
	npkgs   int
}

// loadProgram loads the given packages from /repo's working tree with the harness
// files and the runtime package injected through an overlay, and builds SSA.
var loadWithCgo bool

func loadProgram(patterns []string, overlay map[string][]byte) (*loaded, error) {
	t0 := time.Now()
	rt, err := os.ReadFile(filepath.Join(verifDir, "support/zzverifrt/rt.go"))
	if err != nil {
		return nil, err
	}
	ov := map[string][]byte{filepath.Join(repoDir, "internal/zzverifrt/rt.go"): rt}
	for k, v := range overlay {
		ov[k] = v
	}
	env := []string{}
	for _, e := range os.Environ() {
		if strings.HasPrefix(e, "GOFLAGS=") || strings.HasPrefix(e, "GOTOOLCHAIN=") || strings.HasPrefix(e, "GOSUMDB=") ||
			strings.HasPrefix(e, "GOPROXY=") || strings.HasPrefix(e, "CGO_ENABLED=") || strings.HasPrefix(e, "GOWORK=") {
			continue
		}
		env = append(env, e)
	}
	cgo := "CGO_ENABLED=0"
	if loadWithCgo {
		cgo = "CGO_ENABLED=1" // packages whose non-cgo build does not type-check (mattn/go-sqlite3 users)
	}
	env = append(env, "GOTOOLCHAIN=auto", "GOFLAGS=-mod=mod", "GOPROXY=off", cgo, "GOWORK=off")
	cfg := &packages.Config{
		Mode:       packages.LoadAllSyntax,
		Dir:        repoDir,
		Env:        env,
		Overlay:    ov,
		BuildFlags: []string{"-tags=verif,purego"},
	}
	pkgs, err := packages.Load(cfg, patterns...)
	if err != nil {
		return nil, err
	}
	ld := &loaded{pkgs: map[string]*ssa.Package{}, errs: map[string][]string{}}
	for _, p := range pkgs {
		for _, e := range p.Errors {
			ld.errs[p.PkgPath] = append(ld.errs[p.PkgPath], e.Error())
		}
	}
	ld.loadDur = time.Since(t0)
	t1 := time.Now()
	// Like ssautil.AllPackages, but packages that merely *depend* on an ill-typed package
	// (flux's cgo binding cannot be type-checked with CGO_ENABLED=0) are still created and
	// built; only packages with type errors of their own are created without bodies.
	var fset = pkgs[0].Fset
	prog := ssa.NewProgram(fset, ssa.InstantiateGenerics)
	var toBuild []*ssa.Package
	byPath := map[string]*ssa.Package{}
	packages.Visit(pkgs, nil, func(p *packages.Package) {
		if p.Types == nil || p.TypesInfo == nil {
			return
		}
		sp := prog.CreatePackage(p.Types, p.Syntax, p.TypesInfo, true)
		byPath[p.PkgPath] = sp
		if len(p.Errors) == 0 {
			toBuild = append(toBuild, sp)
		} else {
			ld.errs[p.PkgPath] = append(ld.errs[p.PkgPath], p.Errors[0].Error())
		}
	})
	var wg sync.WaitGroup
	sem := make(chan struct{}, runtime.NumCPU())
	var bmu sync.Mutex
	for _, sp := range toBuild {
		wg.Add(1)
		sem <- struct{}{}
		go func(sp *ssa.Package) {
			defer wg.Done()
			defer func() { <-sem }()
			defer func() {
				if r := recover(); r != nil {
					bmu.Lock()
					ld.errs[sp.Pkg.Path()] = append(ld.errs[sp.Pkg.Path()], fmt.Sprintf("ssa build panic: %v", r))
					bmu.Unlock()
				}
			}()
			sp.Build()
		}(sp)
	}
	wg.Wait()
	ld.prog = prog
	for _, p := range pkgs {
		if sp := byPath[p.PkgPath]; sp != nil {
			ld.pkgs[p.PkgPath] = sp
		}
	}
	ld.npkgs = len(prog.AllPackages())
	ld.ssaDur = time.Since(t1)
	return ld, nil
}

func defaultConfig() *RunConfig {
	w := runtime.NumCPU() - 4
	if w < 1 {
		w = 1
	}
	if s := os.Getenv("VERIF_WORKERS"); s != "" {
		if n, err := strconv.Atoi(s); err == nil && n > 0 {
			w = n
		}
	}
	return &RunConfig{Arith: "bv", Solver: "z3", Unwind: 64, MaxSteps: 50_000_000, MaxDepth: 400, MaxPaths: 2_000_000,
		MaxConc: 64, TimeoutMs: 10000, Workers: w, Merge: true, Bounds: map[string]int{}, Stubs: map[string]string{}, SkipInit: map[string]bool{}}
}

func main() {
	if len(os.Args) < 2 {
		fmt.Fprintln(os.Stderr, "usage: symgo run|check|replay ...")
		os.Exit(2)
	}
	if d := os.Getenv("VERIF_DIR"); d != "" {
		verifDir = d
	}
	if d := os.Getenv("VERIF_REPO"); d != "" {
		repoDir = d
		cacheTag = fmt.Sprintf("_alt%x", sha256.Sum256([]byte(d)))[:12]
	}
	switch os.Args[1] {
	case "run":
		os.Exit(cmdRun(os.Args[2:]))
	case "check":
		os.Exit(cmdCheck(os.Args[2:]))
	case "replay":
		os.Exit(cmdReplay(os.Args[2:]))
	default:
		fmt.Fprintln(os.Stderr, "unknown command", os.Args[1])
		os.Exit(2)
	}
}

// cmdRun: developer entry point — run one harness entry and print a summary.
func cmdRun(args []string) int {
	fs := flag.NewFlagSet("run", flag.ExitOnError)
	pkg := fs.String("pkg", "", "import path of the package under test")
	harness := fs.String("harness", "", "comma-separated harness files")
	entry := fs.String("entry", "", "entry function")
	arith := fs.String("arith", "bv", "bv|int")
	solver := fs.String("solver", "z3", "z3|z3-new|cvc5")
	bounds := fs.String("bounds", "", "k=v,k=v")
	stubs := fs.String("stubs", "", "fn=kind;fn=kind")
	workers := fs.Int("workers", 0, "")
	unwind := fs.Int("unwind", 64, "")
	trace := fs.Bool("trace", false, "crash on engine errors")
	nomerge := fs.Bool("nomerge", false, "")
	timeout := fs.Int("timeout", 10000, "per query ms")
	maxpaths := fs.Int("maxpaths", 2000000, "")
	smtlog := fs.String("smtlog", "", "")
	fs.Parse(args)
	ov := map[string][]byte{}
	for i, h := range strings.Split(*harness, ",") {
		b, err := os.ReadFile(h)
		if err != nil {
			fmt.Fprintln(os.Stderr, err)
			return 2
		}
		ov[filepath.Join(pkgDir(*pkg), fmt.Sprintf("zz_verif_h%d.go", i))] = b
	}
	ld, err := loadProgram([]string{*pkg}, ov)
	if err != nil {
		fmt.Fprintln(os.Stderr, "load:", err)
		return 2
	}
	if errs := ld.errs[*pkg]; len(errs) > 0 {
		fmt.Println("INCONCLUSIVE harness does not load:", strings.Join(errs, "; "))
		return 0
	}
	fmt.Printf("loaded %d packages in %.1fs, ssa %.1fs\n", ld.npkgs, ld.loadDur.Seconds(), ld.ssaDur.Seconds())
	sp := ld.pkgs[*pkg]
	fn := sp.Func(*entry)
	if fn == nil {
		fmt.Fprintln(os.Stderr, "no such entry", *entry)
		return 2
	}
	cfg := defaultConfig()
	cfg.Entry, cfg.Arith, cfg.Solver, cfg.Unwind, cfg.Trace, cfg.Merge = *entry, *arith, *solver, *unwind, *trace, !*nomerge
	cfg.TimeoutMs, cfg.MaxPaths = *timeout, *maxpaths
	cfg.HarnessPkg = sp
	if *workers > 0 {
		cfg.Workers = *workers
	}
	for _, kv := range strings.Split(*bounds, ",") {
		if k, v, ok := strings.Cut(kv, "="); ok {
			n, _ := strconv.Atoi(v)
			cfg.Bounds[k] = n
		}
	}
	for _, kv := range strings.Split(*stubs, ";") {
		if k, v, ok := strings.Cut(kv, "="); ok {
			cfg.Stubs[k] = v
		}
	}
	smtLogPath = *smtlog
	res := Explore(ld.prog, fn, cfg)
	printResult(res)
	if len(res.Violations) > 0 {
		return 1
	}
	return 0
}

var smtLogPath string

func printResult(r *EntryResult) {
	fmt.Printf("== %s [%s] paths=%d %v decisions=%d merges=%d wall=%.1fs\n", r.Entry, r.Arith, r.Paths, r.PathsByStatus, r.Decisions, r.Merges, r.Wall.Seconds())
	fmt.Printf("   asserts: checked=%d unsat=%d unknown=%d trivial=%d labels=%v\n", r.AssertsChecked, r.AssertsUnsat, r.AssertsUnknown, r.AssertsTrivial, r.AssertLabels)
	fmt.Printf("   solver: queries=%d sat=%d unsat=%d unknown=%d errors=%d restarts=%d time=%.1fs max=%.2fs\n", r.Solver.Queries, r.Solver.Sat, r.Solver.Unsat, r.Solver.Unknown, r.Solver.Errors, r.Solver.Restarts, r.Solver.SolverTime.Seconds(), r.Solver.MaxQuery.Seconds())
	fmt.Printf("   reached=%v notExplored=%d distinctModels=%d\n", r.Reached, r.NotExplored, len(r.distinctModels))
	var ks []string
	for k := range r.Inconclusive {
		ks = append(ks, k)
	}
	sort.Strings(ks)
	for _, k := range ks {
		fmt.Printf("   INCONCLUSIVE x%d: %s\n", r.Inconclusive[k], k)
	}
	for _, e := range r.EngineErrors {
		fmt.Printf("   ENGINE-ERROR: %s\n", e)
	}
	for _, v := range r.Violations {
		b, _ := json.Marshal(v.Model)
		fmt.Printf("   VIOLATION-CANDIDATE %s %q %s model=%s choices=%v\n", v.Kind, v.Label, v.Detail, b, v.Choices)
	}
	var fnames []string
	for f := range r.Funcs {
		if strings.Contains(f, modulePath) && !strings.Contains(f, "zzverifrt") {
			fnames = append(fnames, f)
		}
	}
	sort.Strings(fnames)
	fmt.Printf("   functions encoded (%d): %s\n", len(fnames), trunc(strings.Join(fnames, ", "), 1500))
}
