package main

// Path exploration by re-execution: decision prefixes, model-guided branching,
// assumptions, assertions, concretisation, workers.

import (
	"fmt"
	"os"
	"sort"
	"strings"
	"sync"
	"time"

	"golang.org/x/tools/go/ssa"
)

type Dec struct {
	K  byte    // 'b' branch, 'v' concrete value, 'x' exclusion list (only as last prefix entry)
	B  bool    `json:",omitempty"`
	V  int64   `json:",omitempty"`
	Ex []int64 `json:",omitempty"`
}

type workItem struct {
	prefix []Dec
	model  map[string]uint64
}

type RunConfig struct {
	Entry      string
	Arith      string // "bv" | "int"
	Solver     string
	Unwind     int
	MaxSteps   int64
	MaxDepth   int
	MaxPaths   int
	MaxConc    int
	TimeoutMs  int
	Deadline   time.Time
	Workers    int
	Merge      bool
	Bounds     map[string]int
	Stubs      map[string]string
	SkipInit   map[string]bool
	HarnessPkg *ssa.Package
	Seed       int64
	Trace      bool
	ExpectPanic bool
	Sched     bool     // explore goroutine schedules (sched.go)
	SchedPkgs []string // packages whose mutex/atomic operations are schedule points
}

func (c *RunConfig) stubFor(name string) (string, bool) {
	if c.Stubs == nil {
		return "", false
	}
	s, ok := c.Stubs[name]
	return s, ok
}

func (c *RunConfig) lookupHarnessFunc(name string) *ssa.Function {
	if c.HarnessPkg == nil {
		return nil
	}
	return c.HarnessPkg.Func(name)
}

type Violation struct {
	Entry   string            `json:"entry"`
	Label   string            `json:"label"`
	Kind    string            `json:"kind"` // "assert" | "panic"
	Detail  string            `json:"detail,omitempty"`
	Model   map[string]string `json:"model"`
	Choices map[string]int64  `json:"choices"`
	Trace   []Dec             `json:"trace"`
	Where   string            `json:"where,omitempty"`
}

type PathSample struct {
	Status    string            `json:"status"`
	Decisions int               `json:"decisions"`
	PCSize    int               `json:"path_condition_conjuncts"`
	Model     map[string]string `json:"model,omitempty"`
	Choices   map[string]int64  `json:"choices,omitempty"`
	Asserts   []string          `json:"asserts_discharged,omitempty"`
}

type EntryResult struct {
	Entry            string
	Arith            string
	Paths            int
	PathsByStatus    map[string]int
	Decisions        int
	Merges           int
	AssertsChecked   int
	AssertsTrivial   int
	AssertsUnsat     int
	AssertsUnknown   int
	AssumeQueries    int
	FeasQueries      int
	UnknownBranches  int
	NotExplored      int
	Violations       []Violation
	ViolationCount   int
	Reached          map[string]int
	Inconclusive     map[string]int // reason -> count
	Funcs            map[string]bool
	Solver           SolverStats
	Samples          []PathSample
	Wall             time.Duration
	GlobalsMutated   map[string]bool
	AssertLabels     map[string]int
	Assumes          map[string]bool
	EngineErrors     []string
	distinctModels   map[string]bool
	Bounds           map[string]int
	StubsUsed        map[string]string
	MaxPathDecisions int
}

type explorer struct {
	prog *ssa.Program
	cfg  *RunConfig
	fn   *ssa.Function
	mu   sync.Mutex
	cond *sync.Cond
	work []workItem
	busy int
	stop bool
	res  *EntryResult
}

type pathCtx struct {
	in       *Interp
	e        *explorer
	s        *Solver
	prefix   []Dec
	pos      int
	trace    []Dec
	model    map[string]uint64
	pcN      int
	pending  []pendingGo
	merges   int
	reached  []string
	choices  map[string]int64
	asserts  []string
	bounds   map[string]int
	nchecked int
}

func (ex *pathCtx) setModel(m map[string]uint64) {
	ex.model = m
	ex.in.tb.NewModelEpoch()
}

func (ex *pathCtx) assertPC(t *Term) {
	if t.IsConst() {
		return
	}
	ex.s.Assert(t)
	ex.pcN++
}

func (ex *pathCtx) enqueue(prefix []Dec, model map[string]uint64) {
	p := make([]Dec, len(prefix))
	copy(p, prefix)
	e := ex.e
	e.mu.Lock()
	e.work = append(e.work, workItem{p, model})
	e.mu.Unlock()
	e.cond.Signal()
}

func (in *Interp) vars() []*Term { return in.tb.vars }

// decide resolves a branch on a symbolic condition.
func (in *Interp) decide(cond *Term) bool {
	if cond.IsConst() {
		return cond.V != 0
	}
	ex := in.ex
	if ex == nil {
		in.unsupported("symbolic branch outside a path (package initialisation)")
	}
	if in.spec != nil {
		panic(pathAbort{"nospec", "decision inside a speculatively executed block"})
	}
	tb := in.tb
	if ex.pos < len(ex.prefix) {
		d := ex.prefix[ex.pos]
		if d.K != 'b' {
			panic(fmt.Sprintf("engine: replay divergence at decision %d: expected kind %c, got branch", ex.pos, d.K))
		}
		ex.pos++
		if d.B {
			ex.assertPC(cond)
		} else {
			ex.assertPC(tb.Not(cond))
		}
		ex.trace = append(ex.trace, d)
		return d.B
	}
	mv := tb.Eval(cond, ex.model) != 0
	other := cond
	if mv {
		other = tb.Not(cond)
	}
	res, m2 := ex.s.Check(other, in.vars(), true)
	ex.e.noteFeas()
	if res == Unknown {
		res, m2 = ex.s.oneShot(other, in.vars(), 2*in.cfg.TimeoutMs/1000+10)
	}
	switch res {
	case Sat:
		ex.enqueue(append(ex.trace, Dec{K: 'b', B: !mv}), m2)
	case Unknown:
		ex.e.noteUnknownBranch(ex.s.LastErr)
	}
	if mv {
		ex.assertPC(cond)
	} else {
		ex.assertPC(tb.Not(cond))
	}
	ex.trace = append(ex.trace, Dec{K: 'b', B: mv})
	ex.pos = len(ex.trace)
	ex.prefix = ex.trace
	return mv
}

// assume constrains the path; an infeasible assumption ends it.
func (in *Interp) assume(c *Term) {
	if c.IsConst() {
		if c.V == 0 {
			panic(pathAbort{"infeasible", "assumption is false"})
		}
		return
	}
	ex := in.ex
	if in.tb.Eval(c, ex.model) != 0 {
		ex.assertPC(c)
		return
	}
	res, m := ex.s.Check(c, in.vars(), true)
	ex.e.noteAssumeQ()
	switch res {
	case Sat:
		ex.setModel(m)
		ex.assertPC(c)
	case Unsat:
		panic(pathAbort{"infeasible", "assumption unsatisfiable"})
	default:
		panic(pathAbort{"inconclusive", "solver unknown on assumption: " + ex.s.LastErr})
	}
}

// assertProp checks that c holds on this path for every model of the path condition.
func (in *Interp) assertProp(c *Term, label string) {
	ex := in.ex
	e := ex.e
	if c.IsConst() && c.V != 0 {
		e.noteAssert(label, "trivial")
		ex.asserts = append(ex.asserts, label)
		return
	}
	if ex.pos < len(ex.prefix) {
		// already decided by the execution that discovered this prefix
		in.assumeAfterAssert(c)
		return
	}
	tb := in.tb
	if c.IsConst() || tb.Eval(c, ex.model) == 0 {
		e.noteAssert(label, "sat")
		in.reportViolation("assert", label, "", ex.model)
		in.assumeAfterAssert(c)
		return
	}
	res, m2 := ex.s.Check(tb.Not(c), in.vars(), true)
	if res == Unknown {
		// undecided within the incremental solver's timeout: one non-incremental run with full preprocessing
		res, m2 = ex.s.oneShot(tb.Not(c), in.vars(), 4*in.cfg.TimeoutMs/1000+10)
	}
	switch res {
	case Unsat:
		e.noteAssert(label, "unsat")
		ex.asserts = append(ex.asserts, label)
	case Sat:
		e.noteAssert(label, "sat")
		in.reportViolation("assert", label, "", m2)
	default:
		e.noteAssert(label, "unknown")
		e.noteInconclusive("assertion " + label + " undecided: " + ex.s.LastErr)
	}
	ex.assertPC(c)
}

func (in *Interp) assumeAfterAssert(c *Term) {
	if c.IsConst() && c.V == 0 {
		panic(pathAbort{"violated", "assertion is false on this path"})
	}
	ex := in.ex
	if in.tb.Eval(c, ex.model) != 0 {
		ex.assertPC(c)
		return
	}
	res, m := ex.s.Check(c, in.vars(), true)
	switch res {
	case Sat:
		ex.setModel(m)
		ex.assertPC(c)
	case Unsat:
		panic(pathAbort{"violated", "assertion fails for every input on this path"})
	default:
		panic(pathAbort{"inconclusive", "solver unknown after assertion"})
	}
}

func modelStrings(m map[string]uint64) map[string]string {
	r := map[string]string{}
	for k, v := range m {
		r[k] = fmt.Sprintf("%d", v)
	}
	return r
}

func (in *Interp) reportViolation(kind, label, detail string, model map[string]uint64) {
	ex := in.ex
	// restrict the model to declared variables; missing ones are zero
	m := map[string]uint64{}
	for _, v := range in.tb.vars {
		m[v.Name] = model[v.Name] & mask(v.T.W)
	}
	ch := map[string]int64{}
	for k, v := range ex.choices {
		ch[k] = v
	}
	where := ""
	if in.curFr != nil {
		where = in.curFr.fn.String()
	}
	v := Violation{Entry: ex.e.cfg.Entry, Label: label, Kind: kind, Detail: detail, Model: modelStrings(m), Choices: ch,
		Trace: append([]Dec(nil), ex.trace...), Where: where}
	ex.e.addViolation(v)
}

// choose forks over the integers lo..hi (no solver involved).
func (in *Interp) choose(name string, lo, hi int64) int64 {
	ex := in.ex
	if ex == nil {
		in.unsupported("Choose outside a path")
	}
	if hi < lo {
		panic(pathAbort{"infeasible", "empty Choose range"})
	}
	if prev, ok := ex.choices[name]; ok {
		// same name, same value (as in the native runtime, where choices are read by name)
		return prev
	}
	var v int64
	if ex.pos < len(ex.prefix) {
		d := ex.prefix[ex.pos]
		if d.K != 'v' {
			panic(fmt.Sprintf("engine: replay divergence at decision %d: expected kind %c, got choose", ex.pos, d.K))
		}
		ex.pos++
		v = d.V
		ex.trace = append(ex.trace, d)
	} else {
		for alt := hi; alt > lo; alt-- {
			ex.enqueue(append(ex.trace, Dec{K: 'v', V: alt}), ex.model)
		}
		v = lo
		ex.trace = append(ex.trace, Dec{K: 'v', V: v})
		ex.pos = len(ex.trace)
		ex.prefix = ex.trace
	}
	ex.choices[name] = v
	return v
}

// concretize forks over the feasible values of t.
func (in *Interp) concretize(t *Term, what string) int64 {
	if t.IsConst() {
		return t.SVal()
	}
	ex := in.ex
	if ex == nil {
		in.unsupported("symbolic %s outside a path", what)
	}
	if in.spec != nil {
		panic(pathAbort{"nospec", "concretisation inside a speculatively executed block"})
	}
	tb := in.tb
	var excluded []int64
	if ex.pos < len(ex.prefix) {
		d := ex.prefix[ex.pos]
		switch d.K {
		case 'v':
			ex.pos++
			ex.assertPC(tb.Eq(t, tb.Const(t.T, uint64(d.V))))
			ex.trace = append(ex.trace, d)
			return d.V
		case 'x':
			if ex.pos != len(ex.prefix)-1 {
				panic("engine: exclusion entry inside a prefix")
			}
			excluded = d.Ex
			for _, e := range excluded {
				ex.assertPC(tb.Not(tb.Eq(t, tb.Const(t.T, uint64(e)))))
			}
		default:
			panic(fmt.Sprintf("engine: replay divergence at decision %d: expected kind %c, got concretize", ex.pos, d.K))
		}
	}
	v := sext(tb.Eval(t, ex.model), t.T)
	ex2 := append(append([]int64(nil), excluded...), v)
	if len(ex2) > in.cfg.MaxConc {
		panic(pathAbort{"inconclusive", fmt.Sprintf("more than %d values for concretised %s", in.cfg.MaxConc, what)})
	}
	notAny := tb.True
	for _, e := range ex2 {
		notAny = tb.BAnd(notAny, tb.Not(tb.Eq(t, tb.Const(t.T, uint64(e)))))
	}
	res, m2 := ex.s.Check(notAny, in.vars(), true)
	ex.e.noteFeas()
	switch res {
	case Sat:
		ex.enqueue(append(ex.trace, Dec{K: 'x', Ex: ex2}), m2)
	case Unknown:
		ex.e.noteUnknownBranch(ex.s.LastErr)
	}
	ex.assertPC(tb.Eq(t, tb.Const(t.T, uint64(v))))
	ex.trace = append(ex.trace, Dec{K: 'v', V: v})
	ex.pos = len(ex.trace)
	ex.prefix = ex.trace
	return v
}

// ---------------------------------------------------------------------------

func (e *explorer) noteFeas()    { e.mu.Lock(); e.res.FeasQueries++; e.mu.Unlock() }
func (e *explorer) noteAssumeQ() { e.mu.Lock(); e.res.AssumeQueries++; e.mu.Unlock() }
func (e *explorer) noteUnknownBranch(why string) {
	e.mu.Lock()
	e.res.UnknownBranches++
	e.res.Inconclusive["branch feasibility unknown: "+trunc(why, 80)]++
	e.mu.Unlock()
}
func (e *explorer) noteInconclusive(why string) {
	e.mu.Lock()
	e.res.Inconclusive[trunc(why, 160)]++
	e.mu.Unlock()
}
func (e *explorer) noteAssert(label, outcome string) {
	e.mu.Lock()
	defer e.mu.Unlock()
	e.res.AssertLabels[label]++
	switch outcome {
	case "trivial":
		e.res.AssertsTrivial++
	case "unsat":
		e.res.AssertsChecked++
		e.res.AssertsUnsat++
	case "sat":
		e.res.AssertsChecked++
	case "unknown":
		e.res.AssertsChecked++
		e.res.AssertsUnknown++
	}
}
func (e *explorer) addViolation(v Violation) {
	e.mu.Lock()
	defer e.mu.Unlock()
	e.res.ViolationCount++
	n := 0
	for _, x := range e.res.Violations {
		if x.Label == v.Label && x.Kind == v.Kind {
			n++
		}
	}
	if n < 3 {
		e.res.Violations = append(e.res.Violations, v)
	}
}

func trunc(s string, n int) string {
	if len(s) > n {
		return s[:n] + "…"
	}
	return s
}

func newEntryResult(cfg *RunConfig) *EntryResult {
	return &EntryResult{Entry: cfg.Entry, Arith: cfg.Arith, PathsByStatus: map[string]int{}, Reached: map[string]int{},
		Inconclusive: map[string]int{}, Funcs: map[string]bool{}, GlobalsMutated: map[string]bool{}, AssertLabels: map[string]int{},
		Assumes: map[string]bool{}, distinctModels: map[string]bool{}, Bounds: cfg.Bounds, StubsUsed: cfg.Stubs}
}

// Explore runs all paths of fn.
func Explore(prog *ssa.Program, fn *ssa.Function, cfg *RunConfig) *EntryResult {
	e := &explorer{prog: prog, cfg: cfg, fn: fn, res: newEntryResult(cfg)}
	e.cond = sync.NewCond(&e.mu)
	e.work = []workItem{{nil, map[string]uint64{}}}
	t0 := time.Now()
	var wg sync.WaitGroup
	for w := 0; w < cfg.Workers; w++ {
		wg.Add(1)
		go func(w int) {
			defer wg.Done()
			e.worker(w)
		}(w)
	}
	wg.Wait()
	e.res.NotExplored = len(e.work)
	e.res.Wall = time.Since(t0)
	return e.res
}

func (e *explorer) worker(id int) {
	in := NewInterp(e.prog, e.cfg)
	solver, err := NewSolver(e.cfg.Solver, e.cfg.Arith == "int", e.cfg.TimeoutMs, in.tb)
	if err != nil {
		e.mu.Lock()
		e.res.EngineErrors = append(e.res.EngineErrors, "cannot start solver: "+err.Error())
		e.stop = true
		e.mu.Unlock()
		e.cond.Broadcast()
		return
	}
	if p := os.Getenv("VERIF_SMTLOG"); p != "" {
		if f, err := os.Create(fmt.Sprintf("%s.%d.smt2", p, id)); err == nil {
			solver.log = f
			defer f.Close()
		}
	}
	defer func() {
		e.mu.Lock()
		st := solver.Stats
		a := &e.res.Solver
		a.Queries += st.Queries
		a.Sat += st.Sat
		a.Unsat += st.Unsat
		a.Unknown += st.Unknown
		a.Errors += st.Errors
		a.Restarts += st.Restarts
		a.SolverTime += st.SolverTime
		if st.MaxQuery > a.MaxQuery {
			a.MaxQuery = st.MaxQuery
		}
		for f := range in.entered {
			e.res.Funcs[f.String()] = true
		}
		for g := range in.gmut {
			e.res.GlobalsMutated[g.String()] = true
		}
		e.mu.Unlock()
		solver.Close()
	}()
	for {
		e.mu.Lock()
		for len(e.work) == 0 && e.busy > 0 && !e.stop {
			e.cond.Wait()
		}
		if e.stop || len(e.work) == 0 {
			e.mu.Unlock()
			e.cond.Broadcast()
			return
		}
		if e.res.Paths >= e.cfg.MaxPaths || (!e.cfg.Deadline.IsZero() && time.Now().After(e.cfg.Deadline)) {
			e.stop = true
			e.res.Inconclusive["exploration budget reached (paths/time); remaining prefixes not explored"]++
			e.mu.Unlock()
			e.cond.Broadcast()
			return
		}
		item := e.work[len(e.work)-1]
		e.work = e.work[:len(e.work)-1]
		e.busy++
		e.res.Paths++
		e.mu.Unlock()

		e.runPath(in, solver, item)

		e.mu.Lock()
		e.busy--
		e.mu.Unlock()
		e.cond.Broadcast()
	}
}

func (e *explorer) runPath(in *Interp, solver *Solver, item workItem) {
	solver.Reset()
	ex := &pathCtx{in: in, e: e, s: solver, prefix: item.prefix, choices: map[string]int64{}, bounds: e.cfg.Bounds}
	in.ex = ex
	in.steps = 0
	in.curFr = nil
	in.mutexes = map[*Value]int{}
	in.syncMaps = nil
	in.fs = nil
	in.sched = nil
	if e.cfg.Sched {
		in.sched = newScheduler(in)
	}
	ex.setModel(item.model)
	status, msg := "ok", ""
	func() {
		defer func() {
			if r := recover(); r != nil {
				switch r := r.(type) {
				case pathAbort:
					status, msg = r.status, r.msg
				case targetPanic:
					status = "panicked"
					msg = in.panicString(r.v)
					if r.pos != "" {
						msg += " at " + r.pos
					}
				default:
					status = "engine-error"
					msg = fmt.Sprintf("%v", r)
					if e.cfg.Trace {
						panic(r)
					}
				}
			}
		}()
		in.callSSA(nil, e.fn, nil, nil)
		in.runPending()
	}()
	if in.sched != nil {
		in.sched.killAll()
		in.sched = nil
	}
	if status == "panicked" {
		if e.cfg.ExpectPanic {
			status = "ok"
		} else {
			in.reportViolation("panic", "uncaught panic", msg, ex.model)
		}
	}
	in.ex = nil
	e.mu.Lock()
	defer e.mu.Unlock()
	r := e.res
	r.PathsByStatus[status]++
	r.Decisions += len(ex.trace)
	if len(ex.trace) > r.MaxPathDecisions {
		r.MaxPathDecisions = len(ex.trace)
	}
	r.Merges += ex.merges
	for _, l := range ex.reached {
		r.Reached[l]++
	}
	switch status {
	case "ok", "infeasible", "violated", "panicked":
	case "engine-error":
		r.EngineErrors = append(r.EngineErrors, trunc(msg, 300))
	default:
		r.Inconclusive[status+": "+trunc(msg, 200)]++
	}
	if status == "ok" {
		key := modelKey(ex.model, ex.choices)
		r.distinctModels[key] = true
		if len(r.Samples) < 4 {
			r.Samples = append(r.Samples, PathSample{Status: status, Decisions: len(ex.trace), PCSize: ex.pcN,
				Model: modelStrings(ex.model), Choices: ex.choices, Asserts: ex.asserts})
		}
	}
}

func modelKey(m map[string]uint64, ch map[string]int64) string {
	var ks []string
	for k, v := range m {
		ks = append(ks, fmt.Sprintf("%s=%d", k, v))
	}
	for k, v := range ch {
		ks = append(ks, fmt.Sprintf("#%s=%d", k, v))
	}
	sort.Strings(ks)
	return strings.Join(ks, ",")
}
