package main

// Native counterpart of the schedule points of sched.go: in the replay build (through the overlay,
// nothing is written under /repo) the mutex and sync/atomic calls made by the scheduled packages are
// rewritten into calls of the runtime's cooperative scheduler:
//
//	X.Lock()            ->  zzvrt.SchedLock(X.TryLock, X.Unlock)
//	X.RLock()           ->  zzvrt.SchedLock(X.TryRLock, X.RUnlock)
//	X.Unlock()          ->  zzvrt.SchedUnlock(X.Unlock)         (RUnlock alike)
//	atomic.F(args)      ->  zzvrt.SchedFn(atomic.F)(args)       (schedule point before the operation)
//	X.M(args)           ->  zzvrt.SchedRecv(X).M(args)          (typed atomics, sync.Map; &X for pointer methods)
//
// The rewrite is type-directed (go/types decides what is a sync.Mutex / sync.RWMutex method or a
// sync/atomic function) and regenerated from the current sources on every build.

import (
	"fmt"
	"go/ast"
	"go/types"
	"os"
	"path/filepath"
	"sort"
	"strings"

	"golang.org/x/tools/go/packages"
)

type srcEdit struct {
	off  int
	del  int
	text string
	seq  int
}

func simpleOperand(e ast.Expr) bool {
	switch x := e.(type) {
	case *ast.Ident:
		return true
	case *ast.SelectorExpr:
		return simpleOperand(x.X)
	case *ast.StarExpr:
		return simpleOperand(x.X)
	case *ast.ParenExpr:
		return simpleOperand(x.X)
	case *ast.IndexExpr:
		return simpleOperand(x.X) && simpleOperand(x.Index)
	case *ast.BasicLit:
		return true
	case *ast.UnaryExpr:
		return simpleOperand(x.X)
	}
	return false
}

// rewriteSched returns overlay entries (file path as seen by the build -> rewritten copy) for the
// scheduled packages. src maps build paths that do not exist on disk (harness files) to their content.
func rewriteSched(pkgPaths []string, src map[string]string, outDir string) (map[string]string, []string) {
	repl := map[string]string{}
	var notes []string
	ov := map[string][]byte{}
	for p, real := range src {
		if b, err := os.ReadFile(real); err == nil {
			ov[p] = b
		}
	}
	env := goEnv()
	cfg := &packages.Config{
		Mode:       packages.NeedName | packages.NeedFiles | packages.NeedCompiledGoFiles | packages.NeedImports | packages.NeedDeps | packages.NeedTypes | packages.NeedSyntax | packages.NeedTypesInfo | packages.NeedTypesSizes,
		Dir:        repoDir,
		Env:        env,
		Overlay:    ov,
		BuildFlags: []string{"-tags=verif,purego"},
	}
	pkgs, err := packages.Load(cfg, pkgPaths...)
	if err != nil {
		return repl, []string{"schedule rewrite: loading failed: " + err.Error()}
	}
	nPoints := 0
	for _, p := range pkgs {
		if p.TypesInfo == nil {
			notes = append(notes, "schedule rewrite: no type information for "+p.PkgPath)
			continue
		}
		info := p.TypesInfo
		for _, f := range p.Syntax {
			tf := p.Fset.File(f.Pos())
			if tf == nil {
				continue
			}
			path := tf.Name()
			if !strings.HasSuffix(path, ".go") || strings.HasSuffix(path, "_test.go") {
				continue
			}
			var text []byte
			if b, ok := ov[path]; ok {
				text = b
			} else if b, err := os.ReadFile(path); err == nil {
				text = b
			} else {
				continue
			}
			offs := func(n ast.Node) (int, int) { return tf.Offset(n.Pos()), tf.Offset(n.End()) }
			var edits []srcEdit
			seq := 0
			add := func(off, del int, t string) {
				seq++
				edits = append(edits, srcEdit{off, del, t, seq})
			}
			// method call on a typed atomic or a sync.Map: the schedule point is taken while the receiver
			// is evaluated, X.M(args) -> zzvrt.SchedRecv(X).M(args)  (&X for a pointer method on a value)
			wrapRecv := func(sel *ast.SelectorExpr, sig *types.Signature) {
				a, b := offs(sel.X)
				amp := ""
				if _, isPtr := sig.Recv().Type().(*types.Pointer); isPtr {
					if xt := info.TypeOf(sel.X); xt != nil {
						if _, xp := xt.Underlying().(*types.Pointer); !xp {
							amp = "&"
						}
					}
				}
				add(a, 0, "zzvrt.SchedRecv("+amp)
				add(b, 0, ")")
				nPoints++
			}
			ast.Inspect(f, func(n ast.Node) bool {
				c, ok := n.(*ast.CallExpr)
				if !ok {
					return true
				}
				sel, ok := c.Fun.(*ast.SelectorExpr)
				if !ok {
					return true
				}
				var fn *types.Func
				if s := info.Selections[sel]; s != nil {
					if s.Kind() != types.MethodVal {
						return true
					}
					fn, _ = s.Obj().(*types.Func)
				} else {
					fn, _ = info.Uses[sel.Sel].(*types.Func)
				}
				if fn == nil || fn.Pkg() == nil {
					return true
				}
				sig := fn.Type().(*types.Signature)
				switch fn.Pkg().Path() {
				case "sync":
					if sig.Recv() == nil {
						return true
					}
					rt := sig.Recv().Type()
					if pt, ok := rt.(*types.Pointer); ok {
						rt = pt.Elem()
					}
					nt, ok := rt.(*types.Named)
					if ok && nt.Obj().Name() == "Map" {
						wrapRecv(sel, sig)
						return true
					}
					if ok && (nt.Obj().Name() == "Cond" || nt.Obj().Name() == "Locker") && len(c.Args) == 0 && simpleOperand(sel.X) {
						// X.Wait() -> zzvrt.SchedCondWait(X); X.Broadcast()/Signal() -> zzvrt.SchedCondBroadcast(X);
						// a sync.Locker (cond.L): X.Lock() -> zzvrt.SchedLockL(X), X.Unlock() -> zzvrt.SchedUnlockL(X)
						helper := map[string]string{"Cond.Wait": "SchedCondWait", "Cond.Broadcast": "SchedCondBroadcast", "Cond.Signal": "SchedCondBroadcast",
							"Locker.Lock": "SchedLockL", "Locker.Unlock": "SchedUnlockL"}[nt.Obj().Name()+"."+fn.Name()]
						if helper == "" {
							return true
						}
						a, b := offs(c)
						xa, xb := offs(sel.X)
						x := string(text[xa:xb])
						if nt.Obj().Name() == "Cond" {
							if xt := info.TypeOf(sel.X); xt != nil {
								if _, xp := xt.Underlying().(*types.Pointer); !xp {
									x = "&" + x
								}
							}
						}
						add(a, b-a, "zzvrt."+helper+"("+x+")")
						nPoints++
						return false
					}
					if !ok || (nt.Obj().Name() != "Mutex" && nt.Obj().Name() != "RWMutex") {
						return true
					}
					if len(c.Args) != 0 {
						return true
					}
					a, b := offs(c)
					xa, xb := offs(sel.X)
					x := string(text[xa:xb])
					var t string
					switch fn.Name() {
					case "Lock":
						t = fmt.Sprintf("zzvrt.SchedLock(%s.TryLock, %s.Unlock)", x, x)
					case "RLock":
						t = fmt.Sprintf("zzvrt.SchedLock(%s.TryRLock, %s.RUnlock)", x, x)
					case "Unlock":
						t = fmt.Sprintf("zzvrt.SchedUnlock(%s.Unlock)", x)
					case "RUnlock":
						t = fmt.Sprintf("zzvrt.SchedUnlock(%s.RUnlock)", x)
					default:
						return true
					}
					if !simpleOperand(sel.X) {
						notes = append(notes, fmt.Sprintf("schedule rewrite: %s: receiver of %s is not a plain operand; left as it is", p.Fset.Position(c.Pos()), fn.Name()))
						return true
					}
					add(a, b-a, t)
					nPoints++
					return false
				case "sync/atomic":
					if sig.Recv() == nil {
						a, b := offs(c.Fun)
						add(a, 0, "zzvrt.SchedFn(")
						add(b, 0, ")")
						nPoints++
						return true
					}
					wrapRecv(sel, sig)
					return true
				}
				return true
			})
			if len(edits) == 0 {
				continue
			}
			_, pe := offs(f.Name)
			add(pe, 0, "\n\nimport zzvrt \""+vrtPath+"\"\n")
			// apply from the end; at one offset, closers (inserted later) of inner calls go first
			sort.SliceStable(edits, func(i, j int) bool {
				if edits[i].off != edits[j].off {
					return edits[i].off > edits[j].off
				}
				return false
			})
			out := append([]byte(nil), text...)
			// insertions at the same offset: keep source order for openers, reverse for closers — both are
			// obtained by applying them in reverse sequence order at that offset
			for i := 0; i < len(edits); {
				j := i
				for j < len(edits) && edits[j].off == edits[i].off {
					j++
				}
				grp := append([]srcEdit(nil), edits[i:j]...)
				sort.Slice(grp, func(a, b int) bool { return grp[a].seq < grp[b].seq })
				// openers "(" come in pre-order (outer first): outer text must end up leftmost;
				// closers ")" are added after the opener of the same call, inner calls are visited later:
				// inner closer must end up leftmost. Build the text for this offset accordingly.
				var open, clos []srcEdit
				var rest []srcEdit
				for _, e := range grp {
					switch {
					case e.del > 0:
						rest = append(rest, e)
					case strings.HasPrefix(e.text, "zzvrt."):
						open = append(open, e)
					case strings.HasPrefix(e.text, ")"):
						clos = append(clos, e)
					default:
						rest = append(rest, e)
					}
				}
				ins := ""
				for k := len(clos) - 1; k >= 0; k-- {
					ins += clos[k].text
				}
				for _, e := range rest {
					if e.del == 0 {
						ins += e.text
					}
				}
				for _, e := range open {
					ins += e.text
				}
				off := edits[i].off
				del := 0
				for _, e := range rest {
					if e.del > 0 {
						del = e.del
						ins += e.text
					}
				}
				out = append(out[:off:off], append([]byte(ins), out[off+del:]...)...)
				i = j
			}
			dst := filepath.Join(outDir, "sched_"+strings.ReplaceAll(strings.TrimPrefix(strings.TrimPrefix(path, repoDir), "/"), "/", "_"))
			if err := os.WriteFile(dst, out, 0o644); err != nil {
				notes = append(notes, "schedule rewrite: "+err.Error())
				continue
			}
			repl[path] = dst
		}
	}
	notes = append(notes, fmt.Sprintf("schedule rewrite: %d mutex/atomic call sites of %s turned into schedule points", nPoints, strings.Join(pkgPaths, ", ")))
	return repl, notes
}
