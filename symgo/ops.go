package main

// Operators, conversions, builtins, control-flow merging.

import (
	"fmt"
	"go/token"
	"go/types"
	"unicode/utf8"

	"golang.org/x/tools/go/ssa"
)

func (in *Interp) unop(fr *frame, instr *ssa.UnOp, x Value) Value {
	tb := in.tb
	switch instr.Op {
	case token.MUL: // load
		return in.load(instr.Type(), x.(Ptr))
	case token.SUB:
		t := x.(*Term)
		if t.T.K == KFloat {
			return tb.FNeg(t)
		}
		return tb.Neg(t)
	case token.NOT:
		return tb.Not(x.(*Term))
	case token.XOR:
		return tb.Com(x.(*Term))
	case token.ARROW:
		v, ok := in.chanRecv(x.(*Chan))
		if instr.CommaOk {
			return Tuple{v, tb.Bool(ok)}
		}
		return v
	}
	panic(fmt.Sprintf("unop %v", instr.Op))
}

func (in *Interp) binop(op token.Token, xt types.Type, x, y Value) Value {
	tb := in.tb
	switch a := x.(type) {
	case *Term:
		b, ok := y.(*Term)
		if !ok {
			panic(fmt.Sprintf("binop %v: %T vs %T", op, x, y))
		}
		return in.termBinop(op, a, b)
	case Str:
		b := y.(Str)
		switch op {
		case token.ADD:
			return in.strConcat(a, b)
		case token.EQL:
			return in.strEq(a, b)
		case token.NEQ:
			return tb.Not(in.strEq(a, b))
		case token.LSS:
			return in.strLt(a, b)
		case token.GTR:
			return in.strLt(b, a)
		case token.LEQ:
			return tb.Not(in.strLt(b, a))
		case token.GEQ:
			return tb.Not(in.strLt(a, b))
		}
	default:
		switch op {
		case token.EQL:
			return in.valuesEqual(xt, x, y)
		case token.NEQ:
			return tb.Not(in.valuesEqual(xt, x, y))
		}
	}
	panic(fmt.Sprintf("binop %v on %T", op, x))
}

func (in *Interp) termBinop(op token.Token, a, b *Term) Value {
	tb := in.tb
	if a.T.K == KFloat {
		switch op {
		case token.ADD:
			return tb.FBin(OpFAdd, a, b)
		case token.SUB:
			return tb.FBin(OpFSub, a, b)
		case token.MUL:
			return tb.FBin(OpFMul, a, b)
		case token.QUO:
			return tb.FBin(OpFDiv, a, b)
		case token.EQL:
			return tb.Eq(a, b)
		case token.NEQ:
			return tb.Not(tb.Eq(a, b))
		case token.LSS:
			return tb.Lt(a, b)
		case token.LEQ:
			return tb.Le(a, b)
		case token.GTR:
			return tb.Lt(b, a)
		case token.GEQ:
			return tb.Le(b, a)
		}
		panic(fmt.Sprintf("float binop %v", op))
	}
	if a.T.K == KBool {
		switch op {
		case token.EQL:
			return tb.Eq(a, b)
		case token.NEQ:
			return tb.Not(tb.Eq(a, b))
		case token.AND, token.LAND:
			return tb.BAnd(a, b)
		case token.OR, token.LOR:
			return tb.BOr(a, b)
		}
		panic(fmt.Sprintf("bool binop %v", op))
	}
	if op != token.SHL && op != token.SHR && a.T != b.T {
		if a.T.W == b.T.W {
			b = tb.Conv(b, a.T)
		} else {
			panic(fmt.Sprintf("int binop %v on %v and %v", op, a.T, b.T))
		}
	}
	switch op {
	case token.ADD:
		return tb.Add(a, b)
	case token.SUB:
		return tb.Sub(a, b)
	case token.MUL:
		return tb.Mul(a, b)
	case token.QUO, token.REM:
		if b.IsConst() {
			if b.V == 0 {
				in.goPanic("runtime error: integer divide by zero")
			}
		} else if in.decide(tb.Eq(b, tb.Const(b.T, 0))) {
			in.goPanic("runtime error: integer divide by zero")
		}
		if op == token.QUO {
			return tb.Div(a, b)
		}
		return tb.Rem(a, b)
	case token.AND:
		return tb.And(a, b)
	case token.OR:
		return tb.Or(a, b)
	case token.XOR:
		return tb.Xor(a, b)
	case token.AND_NOT:
		return tb.And(a, tb.Com(b))
	case token.SHL, token.SHR:
		if b.T.S {
			if b.IsConst() {
				if b.SVal() < 0 {
					in.goPanic("runtime error: negative shift amount")
				}
			} else if in.decide(tb.Lt(b, tb.Const(b.T, 0))) {
				in.goPanic("runtime error: negative shift amount")
			}
			b = tb.Conv(b, Typ{KInt, b.T.W, false})
		}
		if op == token.SHL {
			return tb.Shl(a, b)
		}
		return tb.Shr(a, b)
	case token.EQL:
		return tb.Eq(a, b)
	case token.NEQ:
		return tb.Not(tb.Eq(a, b))
	case token.LSS:
		return tb.Lt(a, b)
	case token.LEQ:
		return tb.Le(a, b)
	case token.GTR:
		return tb.Lt(b, a)
	case token.GEQ:
		return tb.Le(b, a)
	}
	panic(fmt.Sprintf("int binop %v", op))
}

func (in *Interp) conv(dst, src types.Type, x Value) Value {
	tb := in.tb
	ud, us := dst.Underlying(), src.Underlying()
	switch us := us.(type) {
	case *types.Pointer:
		if b, ok := ud.(*types.Basic); ok && b.Kind() == types.UnsafePointer {
			return x
		}
	case *types.Slice:
		s := x.(Slice)
		if b, ok := ud.(*types.Basic); ok && b.Info()&types.IsString != 0 {
			et, _ := us.Elem().Underlying().(*types.Basic)
			if et != nil && et.Kind() == types.Uint8 {
				bs := make([]*Term, len(s.a))
				for i, c := range s.a {
					bs[i] = c.(*Term)
					if bs[i].T != TU8 {
						bs[i] = in.coerce(bs[i], TU8)
					}
				}
				return in.mkStr(bs)
			}
			// []rune -> string
			rs := make([]rune, len(s.a))
			for i, c := range s.a {
				t := c.(*Term)
				if !t.IsConst() {
					in.unsupported("[]rune -> string with symbolic runes")
				}
				rs[i] = rune(t.SVal())
			}
			return Str{c: string(rs)}
		}
		if _, ok := ud.(*types.Slice); ok {
			return x
		}
		if _, ok := ud.(*types.Array); ok {
			// slice to array conversion
			n := int(ud.(*types.Array).Len())
			if len(s.a) < n {
				in.goPanic("runtime error: cannot convert slice with length less than array length")
			}
			return copyVal(Array(s.a[:n]))
		}
	case *types.Basic:
		if us.Kind() == types.UnsafePointer {
			if pt, ok := ud.(*types.Pointer); ok {
				// (*[N]T)(unsafe.Pointer(&s[j])): view the backing cells from s[j] on as an array
				if at, isArr := pt.Elem().Underlying().(*types.Array); isArr {
					if p, ok := x.(Ptr); ok && p.cell != nil && p.arr != nil {
						if _, already := (*p.cell).(Array); !already {
							n := int(at.Len())
							if n > len(p.arr) {
								n = len(p.arr)
							}
							cell := new(Value)
							*cell = Array(p.arr[:n:n])
							return Ptr{cell: cell}
						}
					}
				}
				return x
			}
			if b, ok := ud.(*types.Basic); ok && b.Kind() == types.UnsafePointer {
				return x
			}
			in.unsupported("conversion unsafe.Pointer -> %v", dst)
		}
		if us.Info()&types.IsString != 0 {
			s := x.(Str)
			if ds, ok := ud.(*types.Slice); ok {
				if s.opaque {
					in.inconclusive("bytes of an opaque (formatted) string")
				}
				eb := ds.Elem().Underlying().(*types.Basic)
				if eb.Kind() == types.Uint8 {
					bs := in.strBytes(s)
					a := make([]Value, len(bs))
					for i, b := range bs {
						a[i] = b
					}
					return Slice{a: a}
				}
				if !s.concrete() {
					in.unsupported("string -> []rune with symbolic bytes")
				}
				rs := []rune(s.c)
				a := make([]Value, len(rs))
				for i, r := range rs {
					a[i] = tb.Int(TI32, int64(r))
				}
				return Slice{a: a}
			}
			if db, ok := ud.(*types.Basic); ok && db.Info()&types.IsString != 0 {
				return x
			}
		}
		if t, ok := x.(*Term); ok {
			db, ok := ud.(*types.Basic)
			if !ok {
				break
			}
			if db.Info()&types.IsString != 0 {
				// integer -> string (rune)
				if !t.IsConst() {
					in.unsupported("string(rune) with symbolic rune")
				}
				return Str{c: string(rune(t.SVal()))}
			}
			if db.Kind() == types.UnsafePointer {
				in.unsupported("conversion uintptr -> unsafe.Pointer")
			}
			dt, ok := typOfBasic(db)
			if !ok {
				in.unsupported("conversion to %v", dst)
			}
			switch {
			case t.T.K == KInt && dt.K == KInt:
				if in.cfg.Arith == "int" && t.T.S && !dt.S && dt.W > t.T.W && !t.IsConst() && in.ex != nil {
					// integer back-end: split sign extension into an unsigned type on the sign, so that the
					// non-negative case is a zero extension with statically known zero high bits
					// (semantics-preserving fork; the infeasible side costs one query)
					if !in.decide(tb.Lt(t, tb.Const(t.T, 0))) {
						return tb.Conv(tb.Conv(t, Typ{KInt, t.T.W, false}), dt)
					}
				}
				return tb.Conv(t, dt)
			case t.T.K == KInt && dt.K == KFloat:
				return tb.I2F(t, dt)
			case t.T.K == KFloat && dt.K == KInt:
				return tb.F2I(t, dt)
			case t.T.K == KFloat && dt.K == KFloat:
				return tb.F2F(t, dt)
			case t.T.K == KBool && dt.K == KBool:
				return t
			}
		}
	}
	in.unsupported("conversion %v -> %v (%T)", src, dst, x)
	return nil
}

// ---------------------------------------------------------------------------
// If with merging of pure diamonds/triangles

func (in *Interp) doIf(fr *frame, instr *ssa.If) continuation {
	cond := fr.get(instr.Cond).(*Term)
	blk := fr.block
	if cond.IsConst() {
		succ := 1
		if cond.V != 0 {
			succ = 0
		}
		fr.prevBlock, fr.block = blk, blk.Succs[succ]
		return kJump
	}
	if in.cfg.Merge {
		if in.tryMerge(fr, blk, cond) {
			return kJump
		}
	}
	if fr.ifCount == nil {
		fr.ifCount = map[*ssa.If]int{}
	}
	fr.ifCount[instr]++
	if fr.ifCount[instr] > in.cfg.Unwind {
		panic(pathAbort{"unwind", fmt.Sprintf("unwinding bound %d reached at %s", in.cfg.Unwind, in.posOf(instr.Cond.Pos()))})
	}
	succ := 1
	if in.decide(cond) {
		succ = 0
	}
	fr.prevBlock, fr.block = blk, blk.Succs[succ]
	return kJump
}

// blockPure reports whether b consists only of side-effect-free, non-panicking
// scalar instructions followed by an unconditional jump.
func (in *Interp) blockPure(b *ssa.BasicBlock) bool {
	if v, ok := in.pureBlk[b]; ok {
		return v == 1
	}
	pure := true
	n := len(b.Instrs)
	if n == 0 {
		pure = false
	}
	for i, ins := range b.Instrs {
		if i == n-1 {
			if _, ok := ins.(*ssa.Jump); !ok {
				pure = false
			}
			break
		}
		switch ins := ins.(type) {
		case *ssa.BinOp:
			switch ins.Op {
			case token.QUO, token.REM:
				if c, ok := ins.Y.(*ssa.Const); !ok || c.Value == nil || c.Uint64() == 0 {
					pure = false
				}
			case token.SHL, token.SHR:
				if bt, ok := ins.Y.Type().Underlying().(*types.Basic); ok && bt.Info()&types.IsUnsigned == 0 {
					if _, isC := ins.Y.(*ssa.Const); !isC {
						pure = false
					}
				}
			}
			if _, ok := scalarTyp(ins.X.Type()); !ok {
				if bt, ok := ins.X.Type().Underlying().(*types.Basic); !ok || bt.Info()&types.IsString == 0 {
					pure = false
				}
			}
		case *ssa.UnOp:
			if ins.Op == token.ARROW {
				pure = false
			}
			if ins.Op == token.MUL {
				// loads are executed speculatively (a nil dereference aborts the merge, see tryMerge)
				if _, ok := scalarTyp(ins.Type()); !ok {
					if _, isSlice := ins.Type().Underlying().(*types.Slice); !isSlice {
						if _, isPtr := ins.Type().Underlying().(*types.Pointer); !isPtr {
							pure = false
						}
					}
				}
			}
		case *ssa.FieldAddr, *ssa.IndexAddr, *ssa.Index:
			// address computations and loads: speculative, any panic or symbolic decision aborts the merge
		case *ssa.Store:
			// scalar stores are logged and committed as ite(cond, new, old)
			if _, ok := scalarTyp(ins.Val.Type()); !ok {
				pure = false
			}
		case *ssa.Convert:
			_, ok1 := scalarTyp(ins.X.Type())
			_, ok2 := scalarTyp(ins.Type())
			if !ok1 || !ok2 {
				pure = false
			}
		case *ssa.ChangeType, *ssa.DebugRef, *ssa.Extract, *ssa.Field:
		case *ssa.Phi:
			pure = false
		default:
			pure = false
		}
		if !pure {
			break
		}
	}
	if pure {
		in.pureBlk[b] = 1
	} else {
		in.pureBlk[b] = 2
	}
	return pure
}

// tryMerge handles  if c {T} [else {F}]  where T and F are pure blocks with a
// common join: both are evaluated and the join's phis become ite(c, ·, ·).
func (in *Interp) tryMerge(fr *frame, blk *ssa.BasicBlock, cond *Term) bool {
	T, F := blk.Succs[0], blk.Succs[1]
	var join *ssa.BasicBlock
	var tBlk, fBlk *ssa.BasicBlock // nil when the edge goes straight to the join
	switch {
	case len(T.Preds) == 1 && len(F.Preds) == 1 && in.blockPure(T) && in.blockPure(F) && T.Succs[0] == F.Succs[0]:
		join, tBlk, fBlk = T.Succs[0], T, F
	case len(T.Preds) == 1 && in.blockPure(T) && T.Succs[0] == F:
		join, tBlk = F, T
	case len(F.Preds) == 1 && in.blockPure(F) && F.Succs[0] == T:
		join, fBlk = T, F
	default:
		return false
	}
	if join == blk || len(join.Preds) < 2 {
		return false
	}
	// the join must not have other phis-incompatible structure: evaluate speculatively
	// Speculative execution of a side block: stores to scalar cells are applied, logged and undone
	// afterwards; any panic, abort or need for a solver decision cancels the merge (fall back to forking).
	run := func(b *ssa.BasicBlock) (map[*Value]Value, bool) {
		if b == nil {
			return nil, true
		}
		ok := true
		sp := &specState{seen: map[*Value]bool{}}
		saved := in.spec
		in.spec = sp
		var finals map[*Value]Value
		func() {
			defer func() {
				in.spec = saved
				if len(sp.log) > 0 {
					finals = map[*Value]Value{}
					for _, w := range sp.log {
						finals[w.cell] = *w.cell
					}
					for i := len(sp.log) - 1; i >= 0; i-- {
						*sp.log[i].cell = sp.log[i].old
					}
				}
				if r := recover(); r != nil {
					if _, isAbort := r.(pathAbort); isAbort {
						ok = false
						return
					}
					if _, isTP := r.(targetPanic); isTP {
						ok = false
						return
					}
					panic(r)
				}
			}()
			for _, ins := range b.Instrs[:len(b.Instrs)-1] {
				in.visitInstr(fr, ins)
			}
		}()
		in.curFr = fr
		return finals, ok
	}
	tW, okT := run(tBlk)
	if !okT {
		return false
	}
	fW, okF := run(fBlk)
	if !okF {
		return false
	}
	// merged stores must be scalar on both sides
	type mw struct {
		cell *Value
		v    *Term
	}
	var merged []mw
	for cell, tv := range tW {
		old, ok1 := (*cell).(*Term)
		nt, ok2 := tv.(*Term)
		if !ok1 || !ok2 || old.T != nt.T {
			return false
		}
		fv := old
		if x, ok := fW[cell]; ok {
			ft, ok3 := x.(*Term)
			if !ok3 || ft.T != old.T {
				return false
			}
			fv = ft
		}
		merged = append(merged, mw{cell, in.tb.Ite(cond, nt, fv)})
	}
	for cell, x := range fW {
		if _, done := tW[cell]; done {
			continue
		}
		old, ok1 := (*cell).(*Term)
		ft, ok2 := x.(*Term)
		if !ok1 || !ok2 || old.T != ft.T {
			return false
		}
		merged = append(merged, mw{cell, in.tb.Ite(cond, old, ft)})
	}
	tPred, fPred := blk, blk
	if tBlk != nil {
		tPred = tBlk
	}
	if fBlk != nil {
		fPred = fBlk
	}
	ti, fi := indexBlock(join.Preds, tPred), indexBlock(join.Preds, fPred)
	if ti < 0 || fi < 0 || ti == fi {
		return false
	}
	// compute merged phis
	var phis []*ssa.Phi
	for _, ins := range join.Instrs {
		p, ok := ins.(*ssa.Phi)
		if !ok {
			break
		}
		phis = append(phis, p)
	}
	vals := make([]Value, len(phis))
	for i, p := range phis {
		tv, fv := fr.get(p.Edges[ti]), fr.get(p.Edges[fi])
		tt, ok1 := tv.(*Term)
		ft, ok2 := fv.(*Term)
		if ok1 && ok2 {
			if tt.T != ft.T {
				return false
			}
			vals[i] = in.tb.Ite(cond, tt, ft)
			continue
		}
		return false
	}
	// commit: enter the join with the merged phi values (runFrame skips its phi prefix)
	for i, p := range phis {
		fr.env[p] = vals[i]
	}
	for _, w := range merged {
		*w.cell = w.v
	}
	in.ex.merges++
	fr.prevBlock, fr.block = tPred, join
	fr.skipPhis = true
	return true
}

// ---------------------------------------------------------------------------
// builtins

func (in *Interp) callBuiltin(caller *frame, fn *ssa.Builtin, args []Value) Value {
	tb := in.tb
	switch fn.Name() {
	case "append":
		if len(args) == 1 {
			return args[0]
		}
		s := args[0].(Slice)
		var add []Value
		switch y := args[1].(type) {
		case Str:
			if y.opaque {
				in.inconclusive("append of an opaque (formatted) string")
			}
			for _, b := range in.strBytes(y) {
				add = append(add, b)
			}
		case Slice:
			add = y.a
		}
		if len(add) == 0 {
			return s
		}
		if len(s.a)+len(add) <= cap(s.a) {
			r := s.a[:len(s.a)+len(add)]
			for i, v := range add {
				r[len(s.a)+i] = copyVal(v)
			}
			return Slice{a: r}
		}
		// grow: Go's exact capacity policy is not observable semantics; use doubling
		nc := 2 * cap(s.a)
		if nc < len(s.a)+len(add) {
			nc = len(s.a) + len(add)
		}
		r := make([]Value, len(s.a)+len(add), nc)
		copy(r, s.a)
		for i, v := range add {
			r[len(s.a)+i] = copyVal(v)
		}
		// zero-fill spare capacity lazily: cells beyond len hold zero of elem type
		if nc > len(r) {
			et := fn.Type().(*types.Signature).Params().At(0).Type().Underlying().(*types.Slice).Elem()
			spare := r[len(r):nc]
			if _, ok := scalarTyp(et); ok {
				z := in.zero(et)
				for i := range spare {
					spare[i] = z
				}
			} else {
				for i := range spare {
					spare[i] = in.zero(et)
				}
			}
		}
		return Slice{a: r}
	case "copy":
		dst := args[0].(Slice)
		var src []Value
		switch y := args[1].(type) {
		case Str:
			for _, b := range in.strBytes(y) {
				src = append(src, b)
			}
		case Slice:
			src = y.a
		}
		n := len(dst.a)
		if len(src) < n {
			n = len(src)
		}
		tmp := make([]Value, n)
		for i := 0; i < n; i++ {
			tmp[i] = copyVal(src[i])
		}
		for i := 0; i < n; i++ {
			storeInto(&dst.a[i], tmp[i])
		}
		return tb.Int(TI64, int64(n))
	case "close":
		c := args[0].(*Chan)
		if c == nil {
			in.goPanic("close of nil channel")
		}
		if c.closed {
			in.goPanic("close of closed channel")
		}
		c.closed = true
		return nil
	case "delete":
		in.mapDelete(args[0].(*Map), args[1])
		return nil
	case "print", "println":
		return nil
	case "len":
		switch x := args[0].(type) {
		case Str:
			return tb.Int(TI64, int64(x.Len()))
		case Slice:
			return tb.Int(TI64, int64(len(x.a)))
		case Array:
			return tb.Int(TI64, int64(len(x)))
		case Ptr:
			if x.cell == nil {
				// len of nil *array is the static length
				at := fn.Type().(*types.Signature).Params().At(0).Type()
				return tb.Int(TI64, mustDeref(at).Underlying().(*types.Array).Len())
			}
			return tb.Int(TI64, int64(len((*x.cell).(Array))))
		case *Map:
			if x == nil {
				return tb.Int(TI64, 0)
			}
			return tb.Int(TI64, int64(x.n))
		case *Chan:
			if x == nil {
				return tb.Int(TI64, 0)
			}
			return tb.Int(TI64, int64(len(x.buf)))
		}
	case "cap":
		switch x := args[0].(type) {
		case Slice:
			return tb.Int(TI64, int64(cap(x.a)))
		case Array:
			return tb.Int(TI64, int64(len(x)))
		case Ptr:
			at := fn.Type().(*types.Signature).Params().At(0).Type()
			return tb.Int(TI64, mustDeref(at).Underlying().(*types.Array).Len())
		case *Chan:
			if x == nil {
				return tb.Int(TI64, 0)
			}
			return tb.Int(TI64, int64(x.cap))
		}
	case "min", "max":
		r := args[0]
		for _, a := range args[1:] {
			switch x := r.(type) {
			case *Term:
				y := a.(*Term)
				var c *Term
				if fn.Name() == "min" {
					c = tb.Lt(y, x)
				} else {
					c = tb.Lt(x, y)
				}
				if x.T.K == KFloat {
					in.unsupported("min/max on floats")
				}
				r = tb.Ite(c, y, x)
			case Str:
				y := a.(Str)
				var c *Term
				if fn.Name() == "min" {
					c = in.strLt(y, x)
				} else {
					c = in.strLt(x, y)
				}
				if in.decide(c) {
					r = y
				}
			}
		}
		return r
	case "clear":
		switch x := args[0].(type) {
		case *Map:
			if x != nil {
				x.entries = nil
				x.idx = map[string]*mapEntry{}
				x.n = 0
			}
		case Slice:
			et := fn.Type().(*types.Signature).Params().At(0).Type().Underlying().(*types.Slice).Elem()
			for i := range x.a {
				storeInto(&x.a[i], in.zero(et))
			}
		}
		return nil
	case "panic":
		panic(targetPanic{args[0], ""})
	case "recover":
		return in.doRecover(caller)
	case "ssa:wrapnilchk":
		recv := args[0]
		if p, ok := recv.(Ptr); ok && p.isNil() {
			in.goPanic(fmt.Sprintf("value method %s.%s called using nil *%s pointer", args[1].(Str).c, args[2].(Str).c, args[1].(Str).c))
		}
		return recv
	case "String": // unsafe.String
		p := args[0].(Ptr)
		n := int(in.asInt(args[1], "unsafe.String len"))
		if n == 0 {
			return Str{}
		}
		if p.cell == nil || len(p.arr) < n {
			in.unsupported("unsafe.String on pointer without backing array")
		}
		bs := make([]*Term, n)
		for i := 0; i < n; i++ {
			bs[i] = p.arr[i].(*Term)
		}
		return in.mkStr(bs)
	case "StringData":
		s := args[0].(Str)
		bs := in.strBytes(s)
		if len(bs) == 0 {
			return Ptr{}
		}
		a := make([]Value, len(bs))
		for i, b := range bs {
			a[i] = b
		}
		return Ptr{cell: &a[0], arr: a}
	case "SliceData":
		s := args[0].(Slice)
		if cap(s.a) == 0 {
			return Ptr{}
		}
		full := s.a[:cap(s.a)]
		return Ptr{cell: &full[0], arr: full}
	case "Slice": // unsafe.Slice
		p := args[0].(Ptr)
		n := int(in.asInt(args[1], "unsafe.Slice len"))
		if p.cell == nil {
			if n == 0 {
				return Slice{}
			}
			in.goPanic("unsafe.Slice: ptr is nil and len is not zero")
		}
		if len(p.arr) < n {
			if n == 1 && p.arr == nil {
				// pointer to a single variable: not backed by an array
				in.unsupported("unsafe.Slice on a non-array pointer")
			}
			in.unsupported("unsafe.Slice beyond backing array")
		}
		return Slice{a: p.arr[:n:n]}
	case "Add":
		in.unsupported("unsafe.Add")
	}
	in.unsupported("builtin %s on %T", fn.Name(), firstOrNil(args))
	return nil
}

func firstOrNil(a []Value) Value {
	if len(a) == 0 {
		return nil
	}
	return a[0]
}

// ---------------------------------------------------------------------------
// channels / goroutines (sequential semantics only)

func (in *Interp) chanSend(c *Chan, v Value) {
	if c == nil {
		panic(pathAbort{"blocked", "send on nil channel blocks forever"})
	}
	if c.closed {
		in.goPanic("send on closed channel")
	}
	limit := c.cap
	if limit == 0 {
		limit = 1 // rendezvous modelled as a one-slot queue under the sequential schedule
	}
	if in.sched != nil {
		in.sched.block(func() bool { return c.closed || len(c.buf) < limit }, "channel send")
		if c.closed {
			in.goPanic("send on closed channel")
		}
		c.buf = append(c.buf, copyVal(v))
		if c.cap == 0 {
			// rendezvous: the sender goes on once a receiver has taken the value
			c.sent++
			my := c.sent
			in.sched.block(func() bool { return c.recvd >= my }, "channel send (rendezvous)")
		}
		return
	}
	if len(c.buf) >= limit {
		if in.runPending() && len(c.buf) < limit {
			c.buf = append(c.buf, copyVal(v))
			return
		}
		panic(pathAbort{"blocked", "channel send would block (sequential schedule)"})
	}
	c.buf = append(c.buf, copyVal(v))
}

func (in *Interp) chanRecv(c *Chan) (Value, bool) {
	if c == nil {
		panic(pathAbort{"blocked", "receive from nil channel blocks forever"})
	}
	if in.sched != nil {
		in.sched.block(func() bool { return c.closed || len(c.buf) > 0 }, "channel receive")
	} else if len(c.buf) == 0 && !c.closed {
		in.runPending()
	}
	if len(c.buf) > 0 {
		v := c.buf[0]
		c.buf = c.buf[1:]
		c.recvd++
		return v, true
	}
	if c.closed {
		return in.zero(c.elem), false
	}
	panic(pathAbort{"blocked", "channel receive would block (sequential schedule)"})
}

type pendingGo struct {
	fn   Value
	args []Value
}

// goStmt: goroutines are deferred and run to completion, in FIFO order, when the
// spawning code blocks or when the entry function returns. One deterministic schedule;
// no claim about interleavings is derived from it.
func (in *Interp) goStmt(fr *frame, fn Value, args []Value) {
	if in.sched != nil {
		in.sched.runFree(fn, args)
		return
	}
	in.ex.pending = append(in.ex.pending, pendingGo{fn, args})
}

// runPending runs queued goroutines to completion; returns true if any ran.
func (in *Interp) runPending() bool {
	ran := false
	for len(in.ex.pending) > 0 {
		g := in.ex.pending[0]
		in.ex.pending = in.ex.pending[1:]
		saved := in.curFr
		in.call(nil, g.fn, g.args)
		in.curFr = saved
		ran = true
	}
	return ran
}

func (in *Interp) selectOp(fr *frame, instr *ssa.Select) Value {
	tb := in.tb
	ready := -1
	if in.sched != nil && instr.Blocking {
		anyReady := func() bool {
			for _, st := range instr.States {
				c, _ := fr.get(st.Chan).(*Chan)
				if c == nil {
					continue
				}
				if st.Dir == types.RecvOnly {
					if len(c.buf) > 0 || c.closed {
						return true
					}
				} else if c.closed || len(c.buf) < max(c.cap, 1) {
					return true
				}
			}
			return false
		}
		in.sched.block(anyReady, "select")
	}
	for pass := 0; pass < 2 && ready < 0; pass++ {
		for i, st := range instr.States {
			c, _ := fr.get(st.Chan).(*Chan)
			if c == nil {
				continue
			}
			if st.Dir == types.RecvOnly {
				if len(c.buf) > 0 || c.closed {
					ready = i
					break
				}
			} else {
				limit := c.cap
				if limit == 0 {
					limit = 1
				}
				if c.closed || len(c.buf) < limit {
					ready = i
					break
				}
			}
		}
		if ready < 0 && pass == 0 {
			if in.sched != nil || !in.runPending() {
				break
			}
		}
	}
	if ready < 0 && instr.Blocking {
		panic(pathAbort{"blocked", "select would block (sequential schedule)"})
	}
	r := Tuple{tb.Int(TI64, int64(ready)), tb.False}
	for i, st := range instr.States {
		if st.Dir == types.RecvOnly {
			var v Value
			c, _ := fr.get(st.Chan).(*Chan)
			if i == ready {
				vv, ok := in.chanRecv(c)
				v = vv
				r[1] = tb.Bool(ok)
			} else {
				v = in.zero(st.Chan.Type().Underlying().(*types.Chan).Elem())
			}
			r = append(r, v)
		} else if i == ready {
			in.chanSend(fr.get(st.Chan).(*Chan), fr.get(st.Send))
		}
	}
	return r
}

var _ = utf8.RuneError

// specState: active while a side block of a mergeable branch is executed speculatively.
type specState struct {
	log  []specWrite
	seen map[*Value]bool
}

type specWrite struct {
	cell *Value
	old  Value
}
