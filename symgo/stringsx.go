package main

// strings.Join over formatted (opaque) strings stays opaque instead of aborting the path: error
// messages assembled from formatted pieces are never inspected by a property.

import "golang.org/x/tools/go/ssa"

func init() {
	reg("strings.Join", func(in *Interp, caller *frame, fn *ssa.Function, a []Value) (Value, bool) {
		s := a[0].(Slice)
		for _, e := range s.a {
			if e.(Str).opaque {
				return opaqueStr("join"), true
			}
		}
		return nil, false
	})
}
