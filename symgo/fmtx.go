package main

// fmt / errors intrinsics. Formatting is never the subject of a property: concrete
// arguments are formatted natively, anything symbolic yields an opaque string whose
// content must not be inspected (doing so makes the path inconclusive).

import (
	"fmt"
	"go/types"
	"strings"

	"golang.org/x/tools/go/ssa"
)

// toNative converts an interpreter value to a Go value for native formatting.
func (in *Interp) toNative(caller *frame, v Value, depth int) (any, bool) {
	switch x := v.(type) {
	case nil:
		return nil, true
	case Iface:
		if x.t == nil {
			return nil, true
		}
		// error / Stringer
		for _, mname := range []string{"Error", "String"} {
			ms := in.prog.MethodSets.MethodSet(x.t)
			if sel := ms.Lookup(nil, mname); sel != nil {
				sig, _ := sel.Type().(*types.Signature)
				if sig != nil && sig.Params().Len() == 0 && sig.Results().Len() == 1 {
					if b, ok := sig.Results().At(0).Type().Underlying().(*types.Basic); ok && b.Kind() == types.String {
						f := in.prog.MethodValue(sel)
						if f == nil {
							return nil, false
						}
						var res Value
						err := in.try(func() { res = in.callSSA(caller, f, []Value{x.v}, nil) })
						in.curFr = caller
						if err != "" {
							return nil, false
						}
						s, ok := res.(Str)
						if !ok || !s.concrete() || s.opaque {
							return nil, false
						}
						return verbatim(s.c), true
					}
				}
			}
		}
		return in.toNativeTyped(caller, x.v, x.t, depth)
	}
	return in.toNativeTyped(caller, v, nil, depth)
}

type verbatim string

func (v verbatim) String() string { return string(v) }
func (v verbatim) Error() string  { return string(v) }

func (in *Interp) toNativeTyped(caller *frame, v Value, t types.Type, depth int) (any, bool) {
	switch x := v.(type) {
	case *Term:
		if !x.IsConst() {
			return nil, false
		}
		switch x.T.K {
		case KBool:
			return x.V != 0, true
		case KFloat:
			if x.T.W == 32 {
				return f32(x.V), true
			}
			return f64(x.V), true
		}
		if x.T.S {
			switch x.T.W {
			case 8:
				return int8(x.SVal()), true
			case 16:
				return int16(x.SVal()), true
			case 32:
				return int32(x.SVal()), true
			}
			return x.SVal(), true
		}
		switch x.T.W {
		case 8:
			return uint8(x.V), true
		case 16:
			return uint16(x.V), true
		case 32:
			return uint32(x.V), true
		}
		return x.V, true
	case Str:
		if !x.concrete() || x.opaque {
			return nil, false
		}
		return x.c, true
	case Slice:
		if depth > 2 {
			return nil, false
		}
		// []byte
		bs := make([]byte, len(x.a))
		for i, c := range x.a {
			t, ok := c.(*Term)
			if !ok || !t.IsConst() || t.T.W != 8 {
				return nil, false
			}
			bs[i] = byte(t.V)
		}
		return bs, true
	case Ptr:
		if x.isNil() {
			return nil, true
		}
		return fmt.Sprintf("%p", x.cell), true
	}
	return nil, false
}

// formatArgs converts a variadic []any; ok=false if something is symbolic/unconvertible.
func (in *Interp) formatArgs(caller *frame, va Value) ([]any, bool) {
	s, _ := va.(Slice)
	out := make([]any, len(s.a))
	ok := true
	for i, a := range s.a {
		n, k := in.toNative(caller, a, 0)
		if !k {
			ok = false
			n = "<?>"
		}
		out[i] = n
	}
	return out, ok
}

func opaqueStr(hint string) Str {
	return Str{c: "<opaque:" + hint + ">", opaque: true, ne: hint != "?" && formatHasLiteral(hint)}
}

// formatHasLiteral: the format string has characters outside its verbs, so the result is non-empty
func formatHasLiteral(f string) bool {
	for i := 0; i < len(f); i++ {
		if f[i] != '%' {
			return true
		}
		i++
		if i < len(f) && f[i] == '%' {
			return true
		}
		for i < len(f) && !(f[i] >= 'a' && f[i] <= 'z' || f[i] >= 'A' && f[i] <= 'Z') {
			i++
		}
	}
	return false
}

// wrapVerbArg returns the index of the argument consumed by the first %w verb, or -1.
func wrapVerbArg(format string) int {
	arg := 0
	for i := 0; i < len(format); i++ {
		if format[i] != '%' {
			continue
		}
		i++
		if i < len(format) && format[i] == '%' {
			continue
		}
		for i < len(format) && strings.IndexByte("+-# 0123456789.*[]", format[i]) >= 0 {
			if format[i] == '*' {
				arg++
			}
			i++
		}
		if i < len(format) {
			if format[i] == 'w' {
				return arg
			}
			arg++
		}
	}
	return -1
}

func (in *Interp) newError(caller *frame, msg Str) Value {
	ep := in.prog.ImportedPackage("errors")
	if ep == nil {
		in.unsupported("errors package not loaded")
	}
	return in.callSSA(caller, ep.Func("New"), []Value{msg}, nil)
}

func init() {
	sprintf := func(in *Interp, caller *frame, format string, va Value) Str {
		args, ok := in.formatArgs(caller, va)
		if !ok {
			return opaqueStr(format)
		}
		return Str{c: fmt.Sprintf(strings.ReplaceAll(format, "%w", "%v"), args...)}
	}
	reg("fmt.Sprintf", func(in *Interp, caller *frame, fn *ssa.Function, a []Value) (Value, bool) {
		f := a[0].(Str)
		if !f.concrete() {
			return opaqueStr("?"), true
		}
		return sprintf(in, caller, f.c, a[1]), true
	})
	reg("fmt.Errorf", func(in *Interp, caller *frame, fn *ssa.Function, a []Value) (Value, bool) {
		f := a[0].(Str)
		if !f.concrete() {
			return in.newError(caller, opaqueStr("?")), true
		}
		msg := sprintf(in, caller, f.c, a[1])
		wi := wrapVerbArg(f.c)
		va := a[1].(Slice)
		if wi >= 0 && wi < len(va.a) {
			if w, ok := va.a[wi].(Iface); ok && w.t != nil {
				if in.prog.MethodSets.MethodSet(w.t).Lookup(nil, "Error") != nil {
					fp := in.prog.ImportedPackage("fmt")
					if fp != nil && fp.Type("wrapError") != nil {
						wt := fp.Type("wrapError").Type()
						cell := new(Value)
						*cell = Struct{msg, w}
						return Iface{t: types.NewPointer(wt), v: Ptr{cell: cell}}, true
					}
				}
			}
		}
		return in.newError(caller, msg), true
	})
	sprint := func(name string, ln bool) {
		reg(name, func(in *Interp, caller *frame, fn *ssa.Function, a []Value) (Value, bool) {
			args, ok := in.formatArgs(caller, a[0])
			if !ok {
				return opaqueStr(name), true
			}
			if ln {
				return Str{c: fmt.Sprintln(args...)}, true
			}
			return Str{c: fmt.Sprint(args...)}, true
		})
	}
	sprint("fmt.Sprint", false)
	sprint("fmt.Sprintln", true)
	for _, n := range []string{"fmt.Printf", "fmt.Println", "fmt.Print"} {
		reg(n, func(in *Interp, caller *frame, fn *ssa.Function, a []Value) (Value, bool) {
			return Tuple{in.tb.Int(TI64, 0), Iface{}}, true
		})
	}
	fprint := func(name string, kind int) {
		reg(name, func(in *Interp, caller *frame, fn *ssa.Function, a []Value) (Value, bool) {
			var s Str
			switch kind {
			case 0:
				f := a[1].(Str)
				if !f.concrete() {
					s = opaqueStr("?")
				} else {
					s = sprintf(in, caller, f.c, a[2])
				}
			default:
				args, ok := in.formatArgs(caller, a[1])
				if !ok {
					s = opaqueStr(name)
				} else if kind == 1 {
					s = Str{c: fmt.Sprint(args...)}
				} else {
					s = Str{c: fmt.Sprintln(args...)}
				}
			}
			if s.opaque {
				in.inconclusive("%s of symbolic values into a writer", name)
			}
			w := a[0].(Iface)
			if w.t == nil {
				in.goPanic("runtime error: invalid memory address or nil pointer dereference")
			}
			sel := in.prog.MethodSets.MethodSet(w.t).Lookup(nil, "Write")
			if sel == nil {
				in.unsupported("%s: writer has no Write method", name)
			}
			bs := make([]Value, len(s.c))
			for i := 0; i < len(s.c); i++ {
				bs[i] = in.byteTab[s.c[i]]
			}
			r := in.callSSA(caller, in.prog.MethodValue(sel), []Value{w.v, Slice{a: bs}}, nil)
			in.curFr = caller
			return r, true
		})
	}
	fprint("fmt.Fprintf", 0)
	fprint("fmt.Fprint", 1)
	fprint("fmt.Fprintln", 2)

	// errors.Is / errors.As without reflectlite
	reg("errors.Is", func(in *Interp, caller *frame, fn *ssa.Function, a []Value) (Value, bool) {
		err, target := a[0].(Iface), a[1].(Iface)
		return in.tb.Bool(in.errorsIs(caller, err, target, 0)), true
	})
	reg("errors.As", func(in *Interp, caller *frame, fn *ssa.Function, a []Value) (Value, bool) {
		err := a[0].(Iface)
		tgt := a[1].(Iface)
		if tgt.t == nil {
			in.goPanic("errors: target cannot be nil")
		}
		pt, ok := tgt.t.Underlying().(*types.Pointer)
		if !ok {
			in.goPanic("errors: target must be a non-nil pointer")
		}
		return in.tb.Bool(in.errorsAs(caller, err, pt.Elem(), tgt.v.(Ptr), 0)), true
	})
}

func (in *Interp) callMethodIfAny(caller *frame, recv Iface, name string, args []Value) (Value, *types.Signature, bool) {
	if recv.t == nil {
		return nil, nil, false
	}
	sel := in.prog.MethodSets.MethodSet(recv.t).Lookup(nil, name)
	if sel == nil {
		return nil, nil, false
	}
	f := in.prog.MethodValue(sel)
	if f == nil {
		return nil, nil, false
	}
	r := in.callSSA(caller, f, append([]Value{recv.v}, args...), nil)
	in.curFr = caller
	return r, sel.Type().(*types.Signature), true
}

func (in *Interp) unwrapAll(caller *frame, err Iface) []Iface {
	r, sig, ok := in.callMethodIfAny(caller, err, "Unwrap", nil)
	if !ok || sig.Params().Len() != 0 || sig.Results().Len() != 1 {
		return nil
	}
	switch x := r.(type) {
	case Iface:
		if x.t == nil {
			return nil
		}
		return []Iface{x}
	case Slice:
		var out []Iface
		for _, e := range x.a {
			if i, ok := e.(Iface); ok && i.t != nil {
				out = append(out, i)
			}
		}
		return out
	}
	return nil
}

func (in *Interp) errorsIs(caller *frame, err, target Iface, depth int) bool {
	if err.t == nil || target.t == nil {
		return err.t == nil && target.t == nil
	}
	if depth > 50 {
		in.inconclusive("errors.Is: unwrap chain too deep")
	}
	if types.Identical(err.t, target.t) && types.Comparable(err.t) {
		if in.decide(in.valuesEqual(err.t, err.v, target.v)) {
			return true
		}
	}
	if r, sig, ok := in.callMethodIfAny(caller, err, "Is", []Value{target}); ok && sig.Params().Len() == 1 && sig.Results().Len() == 1 {
		if t, ok := r.(*Term); ok && in.decide(t) {
			return true
		}
	}
	for _, u := range in.unwrapAll(caller, err) {
		if in.errorsIs(caller, u, target, depth+1) {
			return true
		}
	}
	return false
}

func (in *Interp) errorsAs(caller *frame, err Iface, targetType types.Type, target Ptr, depth int) bool {
	if err.t == nil {
		return false
	}
	if depth > 50 {
		in.inconclusive("errors.As: unwrap chain too deep")
	}
	if it, ok := targetType.Underlying().(*types.Interface); ok {
		if in.implements(err.t, it) {
			in.store(target, err)
			return true
		}
	} else if types.Identical(err.t, targetType) {
		in.store(target, err.v)
		return true
	}
	if r, sig, ok := in.callMethodIfAny(caller, err, "As", []Value{Iface{t: types.NewPointer(targetType), v: target}}); ok && sig.Params().Len() == 1 {
		if t, ok := r.(*Term); ok && in.decide(t) {
			return true
		}
	}
	for _, u := range in.unwrapAll(caller, err) {
		if in.errorsAs(caller, u, targetType, target, depth+1) {
			return true
		}
	}
	return false
}
