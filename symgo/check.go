package main

// `symgo check <property> <tier>`: run every entry of a property's spec, replay
// counterexamples natively, write evidence, print VIOLATION / KNOWN-FINDING lines.

import (
	"bytes"
	"crypto/sha256"
	"encoding/json"
	"fmt"
	"os"
	"os/exec"
	"path/filepath"
	"sort"
	"strconv"
	"strings"
	"time"
)

type TierSpec struct {
	Bounds   map[string]int `json:"bounds"`
	MaxPaths int            `json:"max_paths"`
	BudgetS  int            `json:"budget_s"`
	Skip     bool           `json:"skip"`
}

type EntrySpec struct {
	Name        string            `json:"name"`
	Arith       string            `json:"arith"`
	Solver      string            `json:"solver"`
	Unwind      int               `json:"unwind"`
	TimeoutMs   int               `json:"timeout_ms"`
	Quick       *TierSpec         `json:"quick"`
	Thorough    *TierSpec         `json:"thorough"`
	ExpectReach []string          `json:"expect_reach"`
	ExpectPanic bool              `json:"expect_panic"`
	Stubs       map[string]string `json:"stubs"`
	NoMerge     bool              `json:"no_merge"`
	About       string            `json:"about"`
}

type UnitSpec struct {
	Package  string            `json:"package"`
	Harness  []string          `json:"harness"`
	Arith    string            `json:"arith"`
	Solver   string            `json:"solver"`
	Unwind   int               `json:"unwind"`
	Stubs    map[string]string `json:"stubs"`
	SkipInit []string          `json:"skip_init"`
	FluxStub bool              `json:"flux_stub"` // native build needs the libflux stub module
	Rewrites []NativeRewrite   `json:"native_rewrites"`
	Sched     bool     `json:"sched"`          // explore goroutine schedules (sched.go); native replay re-enacts them
	SchedPkgs []string `json:"sched_packages"` // packages whose mutex/atomic operations are schedule points (default: the unit's)
	Native   string            `json:"native"`    // "samples" (default): validate sample paths natively; "violations": only counterexamples; "off"
	Entries  []EntrySpec       `json:"entries"`
}

func (u *UnitSpec) schedPkgs() []string {
	if len(u.SchedPkgs) > 0 {
		return u.SchedPkgs
	}
	return []string{u.Package}
}

// NativeRewrite: textual call-site replacement applied, in the native replay build only, to a copy of
// a /repo file (through the overlay) — the native counterpart of stubbing a std/third-party callee.
type NativeRewrite struct {
	File    string      `json:"file"`
	Replace [][2]string `json:"replace"`
	Append  string      `json:"append"`
}

type Spec struct {
	Property    string     `json:"property"`
	Units       []UnitSpec `json:"units"`
	Assumptions []string   `json:"assumptions"`
	Outside     string     `json:"outside"`
	Cgo         bool       `json:"cgo"` // load /repo with CGO_ENABLED=1
}

type knownFinding struct {
	kind     string // finding | fixed
	property string
	entry    string
	label    string
	text     string
}

func loadKnownFindings() []knownFinding {
	b, err := os.ReadFile(filepath.Join(verifDir, "known_findings.txt"))
	if err != nil {
		return nil
	}
	var out []knownFinding
	for _, line := range strings.Split(string(b), "\n") {
		line = strings.TrimSpace(line)
		if line == "" || strings.HasPrefix(line, "#") {
			continue
		}
		kind, rest, ok := strings.Cut(line, ":")
		if !ok {
			continue
		}
		kf := knownFinding{kind: strings.TrimSpace(kind), text: strings.TrimSpace(rest)}
		kf.property = fieldOf(rest, "property")
		kf.entry = fieldOf(rest, "entry")
		kf.label = fieldOf(rest, "label")
		out = append(out, kf)
	}
	return out
}

// fieldOf extracts key=value or key="quoted value" from s.
func fieldOf(s, key string) string {
	i := strings.Index(s, key+"=")
	if i < 0 {
		return ""
	}
	r := s[i+len(key)+1:]
	if strings.HasPrefix(r, "\"") {
		if j := strings.Index(r[1:], "\""); j >= 0 {
			return r[1 : 1+j]
		}
	}
	if j := strings.IndexAny(r, " \t"); j >= 0 {
		return r[:j]
	}
	return r
}

type replayOutcome struct {
	Status string // ok | assert-fail | assume-fail | panic | error | build-failed
	Detail string
}

type nativeRunner struct {
	spec     *Spec
	unit     *UnitSpec
	specDir  string
	bin      string
	buildErr string
	built    bool
	buildDur time.Duration
	notes    []string
}

func goEnv() []string {
	env := []string{}
	for _, e := range os.Environ() {
		if strings.HasPrefix(e, "GOFLAGS=") || strings.HasPrefix(e, "GOTOOLCHAIN=") || strings.HasPrefix(e, "GOSUMDB=") ||
			strings.HasPrefix(e, "GOPROXY=") || strings.HasPrefix(e, "GOWORK=") || strings.HasPrefix(e, "VERIF_REPLAY=") {
			continue
		}
		env = append(env, e)
	}
	return append(env, "GOTOOLCHAIN=auto", "GOFLAGS=-mod=mod", "GOPROXY=off", "GOWORK=off")
}

func (nr *nativeRunner) build() {
	if nr.built {
		return
	}
	nr.built = true
	t0 := time.Now()
	defer func() { nr.buildDur = time.Since(t0) }()
	cache := filepath.Join(verifDir, ".cache", "replay"+cacheTag, nr.spec.Property+"_"+strings.ReplaceAll(strings.TrimPrefix(nr.unit.Package, modulePath), "/", "_"))
	if nr.unit.Sched {
		cache += "_sched"
	}
	os.MkdirAll(cache, 0o755)
	pd := pkgDir(nr.unit.Package)
	repl := map[string]string{filepath.Join(repoDir, "internal/zzverifrt/rt.go"): filepath.Join(verifDir, "support/zzverifrt/rt.go")}
	var entries []string
	for _, e := range nr.unit.Entries {
		entries = append(entries, e.Name)
	}
	for i, h := range nr.unit.Harness {
		repl[filepath.Join(pd, fmt.Sprintf("zz_verif_h%d.go", i))] = filepath.Join(nr.specDir, h)
	}
	// package name: read from the first harness file
	pkgName := "main"
	if b, err := os.ReadFile(filepath.Join(nr.specDir, nr.unit.Harness[0])); err == nil {
		for _, l := range strings.Split(string(b), "\n") {
			if strings.HasPrefix(l, "package ") {
				pkgName = strings.TrimSpace(strings.TrimPrefix(l, "package "))
				break
			}
		}
	}
	var tb bytes.Buffer
	fmt.Fprintf(&tb, "package %s\n\nimport (\n\t\"testing\"\n\tvrt \"%s\"\n)\n\nfunc TestVerifReplay(t *testing.T) {\n\tvrt.RunReplay(map[string]func(){\n", pkgName, vrtPath)
	for _, e := range entries {
		fmt.Fprintf(&tb, "\t\t%q: %s,\n", e, e)
	}
	tb.WriteString("\t})\n}\n")
	testFile := filepath.Join(cache, "replay_test.go")
	os.WriteFile(testFile, tb.Bytes(), 0o644)
	repl[filepath.Join(pd, "zz_verif_replay_test.go")] = testFile
	// the package's own _test.go files are blanked out (package clause only): the replay needs
	// none of them, and their imports (flux stdlib, mocks, ...) only slow down or break the build
	if ents, err := os.ReadDir(pd); err == nil {
		for _, e := range ents {
			if e.IsDir() || !strings.HasSuffix(e.Name(), "_test.go") {
				continue
			}
			b, err := os.ReadFile(filepath.Join(pd, e.Name()))
			if err != nil {
				continue
			}
			clause := ""
			for _, l := range strings.Split(string(b), "\n") {
				if strings.HasPrefix(l, "package ") {
					clause = strings.TrimSpace(l)
					if i := strings.Index(clause, "//"); i >= 0 {
						clause = strings.TrimSpace(clause[:i])
					}
					break
				}
			}
			if clause == "" {
				continue
			}
			blank := filepath.Join(cache, "blank_"+e.Name())
			os.WriteFile(blank, []byte(clause+"\n"), 0o644)
			repl[filepath.Join(pd, e.Name())] = blank
		}
	}
	allStubs := map[string]string{}
	for k, v := range nr.unit.Stubs {
		allStubs[k] = v
	}
	for _, e := range nr.unit.Entries {
		for k, v := range e.Stubs {
			allStubs[k] = v
		}
	}
	var schedRepl map[string]string
	if nr.unit.Sched {
		src := map[string]string{}
		for k, v := range repl {
			if strings.HasPrefix(filepath.Base(k), "zz_verif_h") || strings.Contains(k, "zzverifrt") {
				src[k] = v
			}
		}
		var sn []string
		schedRepl, sn = rewriteSched(nr.unit.schedPkgs(), src, cache)
		nr.notes = append(nr.notes, sn...)
		for k, v := range schedRepl {
			repl[k] = v
		}
	}
	stubRepl, stubNotes := rewriteStubs(allStubs, nr.unit.Package, cache, schedRepl)
	for k, v := range stubRepl {
		repl[k] = v
	}
	nr.notes = append(nr.notes, stubNotes...)
	for i, rw := range nr.unit.Rewrites {
		orig := filepath.Join(repoDir, rw.File)
		src := orig
		if r, ok := repl[orig]; ok {
			src = r
		}
		b, err := os.ReadFile(src)
		if err != nil {
			nr.notes = append(nr.notes, "native rewrite: "+err.Error())
			continue
		}
		txt := string(b)
		for _, pr := range rw.Replace {
			if !strings.Contains(txt, pr[0]) {
				nr.notes = append(nr.notes, "native rewrite: pattern not found in "+rw.File+": "+pr[0])
			}
			txt = strings.ReplaceAll(txt, pr[0], pr[1])
		}
		txt += "\n" + rw.Append
		dst := filepath.Join(cache, fmt.Sprintf("rewrite%d_%s", i, filepath.Base(rw.File)))
		os.WriteFile(dst, []byte(txt), 0o644)
		repl[orig] = dst
	}
	ovb, _ := json.Marshal(map[string]any{"Replace": repl})
	ovFile := filepath.Join(cache, "overlay.json")
	os.WriteFile(ovFile, ovb, 0o644)
	nr.bin = filepath.Join(cache, "replay.test")
	os.Remove(nr.bin)
	args := []string{"test", "-c", "-vet=off", "-tags", "verif,purego", "-overlay", ovFile, "-o", nr.bin}
	// always build against the libflux stub: even packages that do not import flux often have
	// test files that do (the replay binary includes the package's own _test.go files)
	{
		mf, err := prepareFluxModfile()
		if err != nil {
			nr.buildErr = err.Error()
			return
		}
		args = append(args, "-modfile="+mf)
	}
	args = append(args, nr.unit.Package)
	cmd := exec.Command("go", args...)
	cmd.Dir = repoDir
	cmd.Env = goEnv()
	out, err := cmd.CombinedOutput()
	if err != nil {
		nr.buildErr = trunc(string(out), 2000)
		nr.bin = ""
	}
}

// prepareFluxModfile regenerates, from /repo's current go.mod, a modfile that
// replaces the flux module by the stubbed copy (no libflux/cgo).
func prepareFluxModfile() (string, error) {
	stub := filepath.Join(verifDir, ".cache", "fluxstub")
	if _, err := os.Stat(filepath.Join(stub, ".done")); err != nil {
		return "", fmt.Errorf("flux stub module missing (run make setup): %v", err)
	}
	dir := filepath.Join(verifDir, ".cache", "gomod")
	os.MkdirAll(dir, 0o755)
	gm, err := os.ReadFile(filepath.Join(repoDir, "go.mod"))
	if err != nil {
		return "", err
	}
	gm = append(gm, []byte("\nreplace github.com/influxdata/flux => "+stub+"\n")...)
	mf := filepath.Join(dir, "go.mod")
	if err := os.WriteFile(mf, gm, 0o644); err != nil {
		return "", err
	}
	gs, err := os.ReadFile(filepath.Join(repoDir, "go.sum"))
	if err != nil {
		return "", err
	}
	if err := os.WriteFile(filepath.Join(dir, "go.sum"), gs, 0o644); err != nil {
		return "", err
	}
	return mf, nil
}

type replayFileJSON struct {
	Property string            `json:"property"`
	Package  string            `json:"package"`
	Entry    string            `json:"entry"`
	Tier     string            `json:"tier"`
	Label    string            `json:"label"`
	Kind     string            `json:"kind"`
	Detail   string            `json:"detail,omitempty"`
	Model    map[string]string `json:"model"`
	Choices  map[string]int64  `json:"choices"`
	Bounds   map[string]int    `json:"bounds"`
	Symbolic string            `json:"symbolic_outcome"`
	Native   string            `json:"native_outcome,omitempty"`
}

func (nr *nativeRunner) run(rf *replayFileJSON, path string) replayOutcome {
	nr.build()
	if nr.bin == "" {
		return replayOutcome{"build-failed", nr.buildErr}
	}
	if path == "" {
		f, err := os.CreateTemp(filepath.Dir(nr.bin), "model-*.json")
		if err != nil {
			return replayOutcome{"error", err.Error()}
		}
		b, _ := json.Marshal(rf)
		f.Write(b)
		f.Close()
		path = f.Name()
		defer os.Remove(path)
	}
	cmd := exec.Command(nr.bin, "-test.run", "^TestVerifReplay$", "-test.v", "-test.timeout", "120s")
	cmd.Dir = pkgDir(nr.unit.Package)
	cmd.Env = append(goEnv(), "VERIF_REPLAY="+path)
	out, _ := cmd.CombinedOutput()
	for _, l := range strings.Split(string(out), "\n") {
		if i := strings.Index(l, "VERIF-RESULT "); i >= 0 {
			f := strings.SplitN(strings.TrimSpace(l[i+len("VERIF-RESULT "):]), " ", 2)
			o := replayOutcome{Status: f[0]}
			if len(f) > 1 {
				o.Detail = f[1]
			}
			return o
		}
	}
	return replayOutcome{"error", trunc(string(out), 1500)}
}

// ---------------------------------------------------------------------------

type evidenceEntry struct {
	Entry              string         `json:"entry"`
	About              string         `json:"about,omitempty"`
	Arith              string         `json:"arith"`
	Bounds             map[string]int `json:"bounds"`
	Unwind             int            `json:"unwind"`
	Paths              int            `json:"paths"`
	PathsByStatus      map[string]int `json:"paths_by_status"`
	Decisions          int            `json:"symbolic_branch_decisions"`
	Merges             int            `json:"diamond_merges"`
	AssertQueries      int            `json:"assertion_queries"`
	AssertUnsat        int            `json:"assertion_queries_unsat"`
	AssertTrivial      int            `json:"assertions_discharged_by_term_identity"`
	AssertUnknown      int            `json:"assertion_queries_unknown"`
	FeasQueries        int            `json:"feasibility_queries"`
	AssumeQueries      int            `json:"assumption_queries"`
	SolverQueries      int            `json:"solver_queries"`
	SolverSat          int            `json:"solver_sat"`
	SolverUnsat        int            `json:"solver_unsat"`
	SolverUnknown      int            `json:"solver_unknown"`
	SolverTimeS        float64        `json:"solver_time_s"`
	MaxQueryS          float64        `json:"max_query_s"`
	WallS              float64        `json:"wall_s"`
	NotExplored        int            `json:"prefixes_not_explored"`
	UnwindFailures     int            `json:"unwind_failures"`
	Inconclusive       map[string]int `json:"inconclusive,omitempty"`
	Witnesses          map[string]int `json:"witnesses_reached"`
	MissingWitnesses   []string       `json:"witnesses_missing,omitempty"`
	AssertLabels       map[string]int `json:"assertion_labels"`
	Violations         int            `json:"violation_candidates"`
	Confirmed          int            `json:"violations_confirmed_natively"`
	Mismatches         int            `json:"engine_mismatches"`
	NativeValidated    int            `json:"sample_paths_validated_natively"`
	NativeDisagree     int            `json:"sample_paths_native_disagreement"`
	Functions          []string       `json:"functions_encoded"`
	GlobalsMutated     []string       `json:"globals_mutated,omitempty"`
	EngineErrors       []string       `json:"engine_errors,omitempty"`
	Complete           bool           `json:"complete"`
	DistinctInputs     int            `json:"distinct_path_models"`
	MaxPathDecisions   int            `json:"max_decisions_on_a_path"`
	Stubs              map[string]string `json:"stubs,omitempty"`
}

func cmdCheck(args []string) int {
	if len(args) < 1 {
		fmt.Fprintln(os.Stderr, "usage: symgo check <property> [quick|thorough] [entry-filter]")
		return 2
	}
	prop := args[0]
	tier := "quick"
	if len(args) > 1 {
		tier = args[1]
	}
	if t := os.Getenv("VERIF_TIER"); t != "" && len(args) < 2 {
		tier = t
	}
	filter := ""
	if len(args) > 2 {
		filter = args[2]
	}
	seed := int64(0)
	if s := os.Getenv("VERIF_SEED"); s != "" {
		seed, _ = strconv.ParseInt(s, 10, 64)
	}
	t0 := time.Now()
	specDir := filepath.Join(verifDir, "harness", prop)
	sb, err := os.ReadFile(filepath.Join(specDir, "spec.json"))
	if err != nil {
		fmt.Fprintln(os.Stderr, "spec:", err)
		return 2
	}
	var spec Spec
	if err := json.Unmarshal(sb, &spec); err != nil {
		fmt.Fprintln(os.Stderr, "spec:", err)
		return 2
	}
	spec.Property = prop
	evPath := filepath.Join(outDir(), "evidence", prop+".json")
	os.MkdirAll(filepath.Dir(evPath), 0o755)

	// overlay with every unit's harness files
	ov := map[string][]byte{}
	var patterns []string
	seenHarness := map[string]bool{} // units of one package share their harness files
	for ui := range spec.Units {
		u := &spec.Units[ui]
		patterns = append(patterns, u.Package)
		for _, h := range u.Harness {
			hp := filepath.Clean(filepath.Join(specDir, h))
			if seenHarness[u.Package+"|"+hp] {
				continue
			}
			seenHarness[u.Package+"|"+hp] = true
			b, err := os.ReadFile(hp)
			if err != nil {
				fmt.Fprintln(os.Stderr, "harness:", err)
				return 2
			}
			ov[filepath.Join(pkgDir(u.Package), fmt.Sprintf("zz_verif_h%d.go", len(seenHarness)))] = b
		}
	}
	loadWithCgo = spec.Cgo
	ld, err := loadProgram(patterns, ov)
	known := loadKnownFindings()
	var evEntries []evidenceEntry
	var samples []any
	var notes []string
	totalViol, confirmedNew := 0, 0
	allFuncs := map[string]bool{}
	solversUsed := map[string]bool{}
	exit := 0
	if err != nil {
		notes = append(notes, "INCONCLUSIVE: loading /repo failed: "+err.Error())
		fmt.Println("INCONCLUSIVE loading /repo failed:", err)
	} else {
		for ui := range spec.Units {
			u := &spec.Units[ui]
			if errs := ld.errs[u.Package]; len(errs) > 0 {
				msg := "INCONCLUSIVE harness does not load for " + u.Package + ": " + trunc(strings.Join(errs, "; "), 600)
				fmt.Println(msg)
				notes = append(notes, msg)
				continue
			}
			sp := ld.pkgs[u.Package]
			if sp == nil {
				msg := "INCONCLUSIVE package not built: " + u.Package
				fmt.Println(msg)
				notes = append(notes, msg)
				continue
			}
			nr := &nativeRunner{spec: &spec, unit: u, specDir: specDir}
			for _, es := range u.Entries {
				if filter != "" && !strings.Contains(es.Name, filter) {
					continue
				}
				ts := es.Quick
				if tier == "thorough" && es.Thorough != nil {
					ts = es.Thorough
				}
				if ts == nil {
					ts = &TierSpec{}
				}
				if tier == "quick" && es.Quick == nil && es.Thorough != nil {
					continue // thorough-only entry
				}
				if ts.Skip {
					continue
				}
				fn := sp.Func(es.Name)
				if fn == nil {
					msg := "INCONCLUSIVE entry not found: " + es.Name
					fmt.Println(msg)
					notes = append(notes, msg)
					continue
				}
				cfg := defaultConfig()
				cfg.Entry = es.Name
				cfg.HarnessPkg = sp
				cfg.Seed = seed
				cfg.Arith = firstNonEmpty(es.Arith, u.Arith, "bv")
				// z3 4.8.12 answers "unknown" on many div/mod-by-constant integer queries that
				// z3 5.1.0 decides in milliseconds (probed on the timestamp codec); bit-vector
				// queries go to the system z3
				defSolver := "z3-new" // also faster and more often decisive on the bit-vector queries (measured on C23/C36/C37)
				if s := os.Getenv("VERIF_SOLVER"); s != "" {
					defSolver = s
				}
				cfg.Solver = firstNonEmpty(es.Solver, u.Solver, defSolver)
				solversUsed[map[string]string{"z3": "z3 4.8.12 (/usr/bin/z3 -in)", "z3-new": "z3 5.1.0 (z3-new -in)", "cvc5": "cvc5 1.0 (--incremental)"}[cfg.Solver]] = true
				if es.Unwind > 0 {
					cfg.Unwind = es.Unwind
				} else if u.Unwind > 0 {
					cfg.Unwind = u.Unwind
				}
				if es.TimeoutMs > 0 {
					cfg.TimeoutMs = es.TimeoutMs
				} else if tier == "thorough" {
					cfg.TimeoutMs = 60000
				}
				cfg.Merge = !es.NoMerge
				cfg.ExpectPanic = es.ExpectPanic
				cfg.Sched = u.Sched
				cfg.SchedPkgs = u.schedPkgs()
				for k, v := range ts.Bounds {
					cfg.Bounds[k] = v
				}
				for k, v := range u.Stubs {
					cfg.Stubs[k] = v
				}
				for k, v := range es.Stubs {
					cfg.Stubs[k] = v
				}
				for _, p := range u.SkipInit {
					cfg.SkipInit[p] = true
				}
				if ts.MaxPaths > 0 {
					cfg.MaxPaths = ts.MaxPaths
				}
				budget := ts.BudgetS
				if budget == 0 {
					budget = 900 // quick entries finish in seconds to a few minutes; the margin is for a loaded machine
					if tier == "thorough" {
						budget = 1500
					}
				}
				cfg.Deadline = time.Now().Add(time.Duration(budget) * time.Second)
				res := Explore(ld.prog, fn, cfg)

				ee := evidenceEntry{Entry: es.Name, About: es.About, Arith: cfg.Arith, Bounds: cfg.Bounds, Unwind: cfg.Unwind, Paths: res.Paths,
					PathsByStatus: res.PathsByStatus, Decisions: res.Decisions, Merges: res.Merges, AssertQueries: res.AssertsChecked,
					AssertUnsat: res.AssertsUnsat, AssertTrivial: res.AssertsTrivial, AssertUnknown: res.AssertsUnknown,
					FeasQueries: res.FeasQueries, AssumeQueries: res.AssumeQueries, SolverQueries: res.Solver.Queries, SolverSat: res.Solver.Sat,
					SolverUnsat: res.Solver.Unsat, SolverUnknown: res.Solver.Unknown, SolverTimeS: round3(res.Solver.SolverTime.Seconds()),
					MaxQueryS: round3(res.Solver.MaxQuery.Seconds()), WallS: round3(res.Wall.Seconds()), NotExplored: res.NotExplored,
					Inconclusive: res.Inconclusive, Witnesses: res.Reached, AssertLabels: res.AssertLabels, Violations: res.ViolationCount,
					EngineErrors: res.EngineErrors, DistinctInputs: len(res.distinctModels), MaxPathDecisions: res.MaxPathDecisions, Stubs: cfg.Stubs}
				for k, n := range res.Inconclusive {
					if strings.HasPrefix(k, "unwind") {
						ee.UnwindFailures += n
					}
				}
				for f := range res.Funcs {
					if strings.Contains(f, modulePath) && !strings.Contains(f, "zzverifrt") && !strings.Contains(f, ".Verif") && !strings.Contains(f, ".verif") {
						ee.Functions = append(ee.Functions, strings.ReplaceAll(f, modulePath+"/", ""))
						allFuncs[f] = true
					}
				}
				sort.Strings(ee.Functions)
				for g := range res.GlobalsMutated {
					ee.GlobalsMutated = append(ee.GlobalsMutated, g)
				}
				sort.Strings(ee.GlobalsMutated)
				want := append([]string{"end"}, es.ExpectReach...)
				if u.Sched {
					// vacuity guard of a schedule entry: the full pre-emption budget was used on some path
					if n, ok := cfg.Bounds["PREEMPT"]; ok && n > 0 {
						want = append(want, fmt.Sprintf("preempted x%d", n))
					} else if !ok {
						want = append(want, "preempted x1")
					}
				}
				for _, w := range want {
					if res.Reached[w] == 0 {
						ee.MissingWitnesses = append(ee.MissingWitnesses, w)
					}
				}
				ee.Complete = len(res.Inconclusive) == 0 && len(res.EngineErrors) == 0 && res.NotExplored == 0 && len(ee.MissingWitnesses) == 0
				printResultBrief(res, &ee)
				if len(ee.MissingWitnesses) > 0 && len(res.Violations) == 0 {
					msg := fmt.Sprintf("INCONCLUSIVE %s: reachability witnesses never reached (vacuous or cut short): %v", es.Name, ee.MissingWitnesses)
					fmt.Println(msg)
					notes = append(notes, msg)
				}

				// native confirmation of counterexamples
				printedKnown := map[string]bool{}
				for _, v := range res.Violations {
					totalViol++
					rf := &replayFileJSON{Property: prop, Package: u.Package, Entry: es.Name, Tier: tier, Label: v.Label, Kind: v.Kind, Detail: v.Detail,
						Model: v.Model, Choices: v.Choices, Bounds: cfg.Bounds, Symbolic: v.Kind + ": " + v.Label + " " + v.Detail}
					var out replayOutcome
					if u.Native == "off" {
						out = replayOutcome{"skipped", "native replay disabled for this unit"}
					} else {
						out = nr.run(rf, "")
						// a schedule is re-enacted by counting schedule points; Go's randomised map iteration can
						// reorder them between native runs, so a run that did not reproduce is repeated
						for try := 0; u.Sched && try < 3 && !(v.Kind == "assert" && out.Status == "assert-fail" && strings.TrimSpace(out.Detail) == v.Label) && !(v.Kind == "panic" && out.Status == "panic"); try++ {
							out = nr.run(rf, "")
						}
					}
					rf.Native = out.Status + " " + out.Detail
					confirmed := false
					switch {
					case v.Kind == "assert" && out.Status == "assert-fail" && strings.TrimSpace(out.Detail) == v.Label:
						confirmed = true
					case v.Kind == "panic" && out.Status == "panic":
						confirmed = true
					}
					if !confirmed {
						ee.Mismatches++
						msg := fmt.Sprintf("ENGINE-MISMATCH %s: symbolic %s %q not reproduced natively (native: %s %s)", es.Name, v.Kind, v.Label, out.Status, trunc(out.Detail, 300))
						fmt.Println(msg)
						notes = append(notes, msg)
						if ee.Mismatches <= 3 {
							// kept for inspection only (never under replays/, never a VIOLATION)
							mb, _ := json.MarshalIndent(rf, "", " ")
							md := filepath.Join(outDir(), ".cache", "mismatch")
							os.MkdirAll(md, 0o755)
							os.WriteFile(filepath.Join(md, fmt.Sprintf("%s-%s-%d.json", prop, es.Name, ee.Mismatches)), mb, 0o644)
						}
						continue
					}
					ee.Confirmed++
					// known finding?
					isKnown := false
					for _, k := range known {
						if k.kind == "finding" && k.property == prop && k.entry == es.Name && k.label == v.Label {
							isKnown = true
							if !printedKnown[k.text] {
								printedKnown[k.text] = true
								fmt.Printf("KNOWN-FINDING: %s\n", k.text)
							}
							break
						}
					}
					if isKnown {
						continue
					}
					confirmedNew++
					rb, _ := json.MarshalIndent(rf, "", " ")
					h := sha256.Sum256(rb)
					rdir := filepath.Join(outDir(), "replays", prop)
					os.MkdirAll(rdir, 0o755)
					rpath := filepath.Join(rdir, fmt.Sprintf("%s-%x.json", es.Name, h[:6]))
					os.WriteFile(rpath, rb, 0o644)
					fmt.Printf("VIOLATION property=%s replay=%s\n", prop, rpath)
					fmt.Printf("  entry=%s %s %q %s\n", es.Name, v.Kind, v.Label, v.Detail)
					exit = 1
				}
				// native validation of sample paths
				if (u.Native == "" || u.Native == "samples") && len(res.Samples) > 0 {
					lim := 2
					if tier == "thorough" {
						lim = 4
					}
					for i, s := range res.Samples {
						if i >= lim {
							break
						}
						rf := &replayFileJSON{Property: prop, Package: u.Package, Entry: es.Name, Tier: tier, Model: s.Model, Choices: s.Choices, Bounds: cfg.Bounds}
						out := nr.run(rf, "")
						if out.Status == "ok" {
							ee.NativeValidated++
						} else if out.Status == "build-failed" {
							msg := "INCONCLUSIVE native build failed for " + u.Package + ": " + trunc(out.Detail, 400)
							fmt.Println(msg)
							notes = append(notes, msg)
							break
						} else {
							ee.NativeDisagree++
							msg := fmt.Sprintf("ENGINE-MISMATCH %s: path explored as ok symbolically but native run says %s %s (model %v choices %v)", es.Name, out.Status, trunc(out.Detail, 200), s.Model, s.Choices)
							fmt.Println(msg)
							notes = append(notes, msg)
						}
					}
				}
				for i, s := range res.Samples {
					if i < 2 {
						samples = append(samples, map[string]any{"entry": es.Name, "path": s})
					}
				}
				evEntries = append(evEntries, ee)
			}
		}
	}

	// evidence
	states, transitions, validated, obligations, discharged := 0, 0, 0, 0, 0
	var qtot, qsat, qunsat, qunk int
	var stime float64
	complete := len(evEntries) > 0
	for _, e := range evEntries {
		states += e.Paths
		transitions += e.Decisions
		validated += e.NativeValidated + e.Confirmed
		obligations += e.AssertQueries + e.AssertTrivial
		discharged += e.AssertUnsat + e.AssertTrivial
		qtot += e.SolverQueries
		qsat += e.SolverSat
		qunsat += e.SolverUnsat
		qunk += e.SolverUnknown
		stime += e.SolverTimeS
		if !e.Complete {
			complete = false
		}
	}
	if len(samples) == 0 {
		samples = append(samples, map[string]any{"note": "no path completed"})
	}
	var fl []string
	for f := range allFuncs {
		fl = append(fl, strings.ReplaceAll(f, modulePath+"/", ""))
	}
	sort.Strings(fl)
	loadInfo := map[string]any{}
	if ld != nil {
		loadInfo = map[string]any{"packages": ld.npkgs, "load_s": round3(ld.loadDur.Seconds()), "ssa_build_s": round3(ld.ssaDur.Seconds())}
	}
	ev := map[string]any{
		"property_id": prop,
		"tier":        tier,
		"seed":        seed,
		"level":       "model_checking",
		"coverage": map[string]any{
			"states":                        max(states, 0),
			"transitions":                   max(transitions, 0),
			"traces_validated_against_impl": validated,
			"samples":                       samples,
			"explanation": "bounded symbolic execution of the real functions (go/ssa of /repo's working tree, regenerated on this run); states = explored paths, transitions = solver-decided symbolic branch decisions; " +
				"every assertion on every path is discharged by an SMT query (unsat) or by term identity; bounds are per entry",
			"entries":                      evEntries,
			"functions_encoded":            fl,
			"assertion_obligations":        obligations,
			"assertion_obligations_discharged": discharged,
			"queries":                      map[string]any{"total": qtot, "sat": qsat, "unsat": qunsat, "unknown": qunk},
			"solver_time_s":                round3(stime),
			"solvers":                      keysOf(solversUsed),
			"complete_within_bounds":       complete,
			"load":                         loadInfo,
			"notes":                        notes,
			"outside_the_claim":            spec.Outside,
		},
		"assumptions": append([]string{"go/ssa construction (x/tools v0.50.0)", "symgo interpreter semantics", "z3 verdicts", "stubs listed per entry", "reference models in the harness"}, spec.Assumptions...),
		"wall_s":      round3(time.Since(t0).Seconds()),
		"violations":  confirmedNew,
	}
	if states == 0 || transitions == 0 {
		// schema wants >=1 when the keys are present; an empty run is reported through the generic keys instead
		cov := ev["coverage"].(map[string]any)
		delete(cov, "states")
		delete(cov, "transitions")
		cov["evaluations"] = 1
		cov["distinct_nontrivial"] = 0
	}
	eb, _ := json.MarshalIndent(ev, "", " ")
	os.WriteFile(evPath, eb, 0o644)
	fmt.Printf("%s %s: entries=%d paths=%d decisions=%d violations(new,confirmed)=%d candidates=%d complete=%v wall=%.1fs\n", prop, tier, len(evEntries), states, transitions, confirmedNew, totalViol, complete, time.Since(t0).Seconds())
	return exit
}

func round3(f float64) float64 { return float64(int64(f*1000+0.5)) / 1000 }

func firstNonEmpty(ss ...string) string {
	for _, s := range ss {
		if s != "" {
			return s
		}
	}
	return ""
}

func printResultBrief(r *EntryResult, ee *evidenceEntry) {
	fmt.Printf("-- %s [%s %v] paths=%d %v decisions=%d asserts(q=%d unsat=%d trivial=%d unk=%d) solver(q=%d %.1fs max %.2fs) wall=%.1fs complete=%v\n",
		r.Entry, r.Arith, r.Bounds, r.Paths, r.PathsByStatus, r.Decisions, r.AssertsChecked, r.AssertsUnsat, r.AssertsTrivial, r.AssertsUnknown,
		r.Solver.Queries, r.Solver.SolverTime.Seconds(), r.Solver.MaxQuery.Seconds(), r.Wall.Seconds(), ee.Complete)
	var ks []string
	for k := range r.Inconclusive {
		ks = append(ks, k)
	}
	sort.Strings(ks)
	for _, k := range ks {
		fmt.Printf("   INCONCLUSIVE x%d: %s\n", r.Inconclusive[k], k)
	}
	for _, e := range r.EngineErrors {
		fmt.Printf("   ENGINE-ERROR: %s\n", e)
	}
}

func cmdReplay(args []string) int {
	if len(args) < 1 {
		fmt.Fprintln(os.Stderr, "usage: symgo replay <file>")
		return 2
	}
	b, err := os.ReadFile(args[0])
	if err != nil {
		fmt.Fprintln(os.Stderr, err)
		return 2
	}
	var rf replayFileJSON
	if err := json.Unmarshal(b, &rf); err != nil {
		fmt.Fprintln(os.Stderr, err)
		return 2
	}
	specDir := filepath.Join(verifDir, "harness", rf.Property)
	sb, err := os.ReadFile(filepath.Join(specDir, "spec.json"))
	if err != nil {
		fmt.Fprintln(os.Stderr, err)
		return 2
	}
	var spec Spec
	json.Unmarshal(sb, &spec)
	spec.Property = rf.Property
	for ui := range spec.Units {
		u := &spec.Units[ui]
		if u.Package != rf.Package {
			continue
		}
		has := false
		for _, e := range u.Entries {
			has = has || e.Name == rf.Entry
		}
		if !has {
			continue
		}
		nr := &nativeRunner{spec: &spec, unit: u, specDir: specDir}
		abs, _ := filepath.Abs(args[0])
		out := nr.run(&rf, abs)
		for try := 0; u.Sched && try < 3 && out.Status != "assert-fail" && out.Status != "panic"; try++ {
			out = nr.run(&rf, abs) // map iteration order can shift the schedule points of a native run
		}
		fmt.Printf("native replay of %s: %s %s\n", rf.Entry, out.Status, out.Detail)
		if out.Status == "assert-fail" || out.Status == "panic" {
			fmt.Printf("VIOLATION property=%s replay=%s\n", rf.Property, abs)
			return 1
		}
		return 0
	}
	fmt.Fprintln(os.Stderr, "unit not found for package", rf.Package)
	return 2
}

func keysOf(m map[string]bool) []string {
	var ks []string
	for k := range m {
		ks = append(ks, k)
	}
	sort.Strings(ks)
	return ks
}
