package main

// An in-memory file system behind the os / path/filepath entry points that storage code uses
// (OpenFile, Stat, Remove, Rename, MkdirAll, Truncate, ReadFile, WriteFile, Glob and the *os.File
// methods). File names, lengths, offsets and flags are concrete; file content is a vector of byte
// terms and may be symbolic. Every write is durable at once; a crash is modelled by the harness
// (truncating or removing files before "reopening"). O_APPEND, holes left by writes beyond the end,
// and truncation under an open handle follow POSIX semantics.

import (
	"go/types"
	"path/filepath"
	"sort"
	"strings"
	"syscall"
)

type memFile struct {
	data  []*Term
	isDir bool
}

type memHandle struct {
	name   string
	f      *memFile
	pos    int
	flags  int
	closed bool
}

type memFS struct {
	files   map[string]*memFile
	handles map[*Value]*memHandle
}

func (in *Interp) memfs() *memFS {
	if in.fs == nil {
		in.fs = &memFS{files: map[string]*memFile{"/memfs": {isDir: true}}, handles: map[*Value]*memHandle{}}
	}
	return in.fs
}

func (in *Interp) globalVar(pkg, name string) Value {
	p := in.prog.ImportedPackage(pkg)
	if p == nil {
		in.unsupported("package %s not loaded", pkg)
	}
	g := p.Var(name)
	if g == nil {
		in.unsupported("no global %s.%s", pkg, name)
	}
	in.ensureInit(p)
	return copyVal(*in.globalAddr(g))
}

func (in *Interp) fsErr(kind string) Value {
	switch kind {
	case "notexist":
		return in.globalVar("io/fs", "ErrNotExist")
	case "exist":
		return in.globalVar("io/fs", "ErrExist")
	case "closed":
		return in.globalVar("io/fs", "ErrClosed")
	case "eof":
		return in.globalVar("io", "EOF")
	}
	return in.globalVar("io/fs", "ErrInvalid")
}

func (in *Interp) cpath(v Value, what string) string {
	return filepath.Clean(cstr(in, v, what))
}

func (in *Interp) newFileValue(h *memHandle) Value {
	op := in.prog.ImportedPackage("os")
	cell := new(Value)
	*cell = in.zero(op.Type("File").Type())
	in.memfs().handles[cell] = h
	return Ptr{cell: cell}
}

func (in *Interp) handleOf(v Value) *memHandle {
	p, ok := v.(Ptr)
	if !ok || p.cell == nil {
		in.goPanic("runtime error: invalid memory address or nil pointer dereference")
	}
	h := in.memfs().handles[p.cell]
	if h == nil {
		in.unsupported("*os.File not created through the in-memory file system")
	}
	return h
}

func (in *Interp) fileInfo(name string, f *memFile) Value {
	op := in.prog.ImportedPackage("os")
	ft := op.Type("fileStat").Type()
	st := ft.Underlying().(*types.Struct)
	val := in.zero(ft).(Struct)
	for i := 0; i < st.NumFields(); i++ {
		switch st.Field(i).Name() {
		case "name":
			val[i] = Str{c: filepath.Base(name)}
		case "size":
			val[i] = in.tb.Int(TI64, int64(len(f.data)))
		case "mode":
			if f.isDir {
				val[i] = in.tb.Const(TU32, uint64(1<<31|0o755))
			} else {
				val[i] = in.tb.Const(TU32, 0o644)
			}
		}
	}
	cell := new(Value)
	*cell = val
	return Iface{t: types.NewPointer(ft), v: Ptr{cell: cell}}
}

func (in *Interp) openFile(name string, flags int) Value {
	fs := in.memfs()
	f := fs.files[name]
	if f == nil {
		if flags&syscall.O_CREAT == 0 {
			return Tuple{Ptr{}, in.fsErr("notexist")}
		}
		if d := fs.files[filepath.Dir(name)]; d == nil || !d.isDir {
			return Tuple{Ptr{}, in.fsErr("notexist")}
		}
		f = &memFile{}
		fs.files[name] = f
	} else if flags&syscall.O_CREAT != 0 && flags&syscall.O_EXCL != 0 {
		return Tuple{Ptr{}, in.fsErr("exist")}
	}
	if flags&syscall.O_TRUNC != 0 && !f.isDir {
		f.data = nil
	}
	return Tuple{in.newFileValue(&memHandle{name: name, f: f, flags: flags}), Iface{}}
}

func init() {
	regSimple("os.OpenFile", func(in *Interp, a []Value) Value {
		return in.openFile(in.cpath(a[0], "file name"), int(in.asInt(a[1], "open flags")))
	})
	regSimple("os.Open", func(in *Interp, a []Value) Value {
		return in.openFile(in.cpath(a[0], "file name"), syscall.O_RDONLY)
	})
	regSimple("os.Create", func(in *Interp, a []Value) Value {
		return in.openFile(in.cpath(a[0], "file name"), syscall.O_RDWR|syscall.O_CREAT|syscall.O_TRUNC)
	})
	stat := func(in *Interp, a []Value) Value {
		name := in.cpath(a[0], "file name")
		f := in.memfs().files[name]
		if f == nil {
			return Tuple{Iface{}, in.fsErr("notexist")}
		}
		return Tuple{in.fileInfo(name, f), Iface{}}
	}
	regSimple("os.Stat", stat)
	regSimple("os.Lstat", stat)
	regSimple("os.Remove", func(in *Interp, a []Value) Value {
		name := in.cpath(a[0], "file name")
		fs := in.memfs()
		if fs.files[name] == nil {
			return in.fsErr("notexist")
		}
		delete(fs.files, name)
		return Iface{}
	})
	regSimple("os.RemoveAll", func(in *Interp, a []Value) Value {
		name := in.cpath(a[0], "file name")
		fs := in.memfs()
		for k := range fs.files {
			if k == name || strings.HasPrefix(k, name+"/") {
				delete(fs.files, k)
			}
		}
		return Iface{}
	})
	regSimple("os.Rename", func(in *Interp, a []Value) Value {
		from, to := in.cpath(a[0], "file name"), in.cpath(a[1], "file name")
		fs := in.memfs()
		f := fs.files[from]
		if f == nil {
			return in.fsErr("notexist")
		}
		delete(fs.files, from)
		fs.files[to] = f
		return Iface{}
	})
	regSimple("os.MkdirAll", func(in *Interp, a []Value) Value {
		name := in.cpath(a[0], "directory name")
		fs := in.memfs()
		for d := name; d != "/" && d != "."; d = filepath.Dir(d) {
			if fs.files[d] == nil {
				fs.files[d] = &memFile{isDir: true}
			}
		}
		return Iface{}
	})
	regSimple("os.Mkdir", func(in *Interp, a []Value) Value {
		name := in.cpath(a[0], "directory name")
		fs := in.memfs()
		if fs.files[name] != nil {
			return in.fsErr("exist")
		}
		fs.files[name] = &memFile{isDir: true}
		return Iface{}
	})
	regSimple("os.Truncate", func(in *Interp, a []Value) Value {
		f := in.memfs().files[in.cpath(a[0], "file name")]
		if f == nil {
			return in.fsErr("notexist")
		}
		in.truncate(f, int(in.asInt(a[1], "truncate size")))
		return Iface{}
	})
	regSimple("os.ReadFile", func(in *Interp, a []Value) Value {
		f := in.memfs().files[in.cpath(a[0], "file name")]
		if f == nil {
			return Tuple{Slice{}, in.fsErr("notexist")}
		}
		out := make([]Value, len(f.data))
		for i, t := range f.data {
			out[i] = t
		}
		return Tuple{Slice{a: out}, Iface{}}
	})
	regSimple("os.WriteFile", func(in *Interp, a []Value) Value {
		name := in.cpath(a[0], "file name")
		fs := in.memfs()
		f := fs.files[name]
		if f == nil {
			f = &memFile{}
			fs.files[name] = f
		}
		f.data = append([]*Term(nil), sliceTerms(in, a[1])...)
		return Iface{}
	})
	regSimple("os.ReadDir", func(in *Interp, a []Value) Value {
		dir := in.cpath(a[0], "directory name")
		fs := in.memfs()
		if d := fs.files[dir]; d == nil || !d.isDir {
			return Tuple{Slice{}, in.fsErr("notexist")}
		}
		var names []string
		for k := range fs.files {
			if k != dir && filepath.Dir(k) == dir {
				names = append(names, k)
			}
		}
		sort.Strings(names)
		op := in.prog.ImportedPackage("os")
		dt := op.Type("unixDirent").Type()
		st := dt.Underlying().(*types.Struct)
		out := make([]Value, len(names))
		for i, n := range names {
			val := in.zero(dt).(Struct)
			for j := 0; j < st.NumFields(); j++ {
				switch st.Field(j).Name() {
				case "parent":
					val[j] = Str{c: dir}
				case "name":
					val[j] = Str{c: filepath.Base(n)}
				case "typ":
					if fs.files[n].isDir {
						val[j] = in.tb.Const(TU32, uint64(1<<31))
					}
				case "info":
					val[j] = in.fileInfo(n, fs.files[n])
				}
			}
			cell := new(Value)
			*cell = val
			out[i] = Iface{t: types.NewPointer(dt), v: Ptr{cell: cell}}
		}
		if len(out) == 0 {
			return Tuple{Slice{a: []Value{}}, Iface{}}
		}
		return Tuple{Slice{a: out}, Iface{}}
	})
	regSimple("path/filepath.Glob", func(in *Interp, a []Value) Value {
		pat := cstr(in, a[0], "glob pattern")
		var names []string
		for k := range in.memfs().files {
			if ok, _ := filepath.Match(pat, k); ok {
				names = append(names, k)
			}
		}
		sort.Strings(names)
		out := make([]Value, len(names))
		for i, n := range names {
			out[i] = Str{c: n}
		}
		if len(out) == 0 {
			return Tuple{Slice{}, Iface{}}
		}
		return Tuple{Slice{a: out}, Iface{}}
	})

	// ---- *os.File
	regSimple("(*os.File).Name", func(in *Interp, a []Value) Value { return Str{c: in.handleOf(a[0]).name} })
	regSimple("(*os.File).Fd", func(in *Interp, a []Value) Value { return in.tb.Const(TU64, 3) })
	regSimple("(*os.File).Sync", func(in *Interp, a []Value) Value { in.handleOf(a[0]); return Iface{} })
	regSimple("(*os.File).Close", func(in *Interp, a []Value) Value {
		h := in.handleOf(a[0])
		if h.closed {
			return in.fsErr("closed")
		}
		h.closed = true
		return Iface{}
	})
	regSimple("(*os.File).Stat", func(in *Interp, a []Value) Value {
		h := in.handleOf(a[0])
		return Tuple{in.fileInfo(h.name, h.f), Iface{}}
	})
	regSimple("(*os.File).Truncate", func(in *Interp, a []Value) Value {
		h := in.handleOf(a[0])
		in.truncate(h.f, int(in.asInt(a[1], "truncate size")))
		return Iface{}
	})
	regSimple("(*os.File).Seek", func(in *Interp, a []Value) Value {
		h := in.handleOf(a[0])
		off, whence := int(in.asInt(a[1], "seek offset")), int(in.asInt(a[2], "seek whence"))
		switch whence {
		case 0:
			h.pos = off
		case 1:
			h.pos += off
		case 2:
			h.pos = len(h.f.data) + off
		}
		if h.pos < 0 {
			h.pos = 0
			return Tuple{in.tb.Int(TI64, 0), in.fsErr("invalid")}
		}
		return Tuple{in.tb.Int(TI64, int64(h.pos)), Iface{}}
	})
	regSimple("(*os.File).Read", func(in *Interp, a []Value) Value {
		h := in.handleOf(a[0])
		if h.closed {
			return Tuple{in.tb.Int(TI64, 0), in.fsErr("closed")}
		}
		p := a[1].(Slice)
		if len(p.a) == 0 {
			return Tuple{in.tb.Int(TI64, 0), Iface{}}
		}
		if h.pos >= len(h.f.data) {
			return Tuple{in.tb.Int(TI64, 0), in.fsErr("eof")}
		}
		n := 0
		for n < len(p.a) && h.pos < len(h.f.data) {
			p.a[n] = h.f.data[h.pos]
			n++
			h.pos++
		}
		return Tuple{in.tb.Int(TI64, int64(n)), Iface{}}
	})
	write := func(in *Interp, h *memHandle, b []*Term) Value {
		if h.closed {
			return Tuple{in.tb.Int(TI64, 0), in.fsErr("closed")}
		}
		if h.flags&syscall.O_APPEND != 0 {
			h.pos = len(h.f.data)
		}
		for len(h.f.data) < h.pos {
			h.f.data = append(h.f.data, in.byteTab[0]) // hole
		}
		for _, t := range b {
			if h.pos < len(h.f.data) {
				h.f.data[h.pos] = t
			} else {
				h.f.data = append(h.f.data, t)
			}
			h.pos++
		}
		return Tuple{in.tb.Int(TI64, int64(len(b))), Iface{}}
	}
	regSimple("(*os.File).Write", func(in *Interp, a []Value) Value {
		return write(in, in.handleOf(a[0]), sliceTerms(in, a[1]))
	})
	regSimple("(*os.File).WriteString", func(in *Interp, a []Value) Value {
		return write(in, in.handleOf(a[0]), in.strBytes(a[1].(Str)))
	})
}

func (in *Interp) truncate(f *memFile, n int) {
	if n < 0 {
		n = 0
	}
	for len(f.data) < n {
		f.data = append(f.data, in.byteTab[0])
	}
	f.data = f.data[:n:n]
}
