package main

// Intrinsics: the harness runtime (zzverifrt) and bodyless / runtime-dependent
// standard-library functions.

import (
	"fmt"
	"go/types"
	"math"
	"math/bits"
	"strings"

	"golang.org/x/tools/go/ssa"
)

const vrtPath = "github.com/influxdata/influxdb/v2/internal/zzverifrt"

type intrinsic func(in *Interp, caller *frame, fn *ssa.Function, args []Value) (Value, bool)

var intrinsics = map[string]intrinsic{}

func reg(name string, f intrinsic) { intrinsics[name] = f }

func regSimple(name string, f func(in *Interp, args []Value) Value) {
	intrinsics[name] = func(in *Interp, _ *frame, _ *ssa.Function, args []Value) (Value, bool) {
		return f(in, args), true
	}
}

func cstr(in *Interp, v Value, what string) string {
	s := v.(Str)
	if s.b != nil {
		in.unsupported("%s must be a concrete string", what)
	}
	return s.c
}

func (in *Interp) freshVar(name string, t Typ) *Term {
	if in.ex == nil {
		in.unsupported("symbolic value %q requested outside a path", name)
	}
	return in.tb.Var(t, name)
}

func init() {
	v := vrtPath + "."
	mkv := func(fn string, t Typ) {
		regSimple(v+fn, func(in *Interp, a []Value) Value { return in.freshVar(cstr(in, a[0], "variable name"), t) })
	}
	mkv("Int64", TI64)
	mkv("Int", TI64)
	mkv("Uint64", TU64)
	mkv("Uint", TU64)
	mkv("Int32", TI32)
	mkv("Uint32", TU32)
	mkv("Int16", Typ{KInt, 16, true})
	mkv("Uint16", Typ{KInt, 16, false})
	mkv("Int8", Typ{KInt, 8, true})
	mkv("Uint8", TU8)
	mkv("Byte", TU8)
	mkv("Bool", TBool)
	mkv("Float64", TF64)
	mkv("Float32", TF32)
	regSimple(v+"Bytes", func(in *Interp, a []Value) Value {
		name := cstr(in, a[0], "variable name")
		n := int(in.asInt(a[1], "Bytes length"))
		s := make([]Value, n)
		for i := range s {
			s[i] = in.freshVar(fmt.Sprintf("%s[%d]", name, i), TU8)
		}
		return Slice{a: s}
	})
	regSimple(v+"String", func(in *Interp, a []Value) Value {
		name := cstr(in, a[0], "variable name")
		n := int(in.asInt(a[1], "String length"))
		if n == 0 {
			return Str{}
		}
		s := make([]*Term, n)
		for i := range s {
			s[i] = in.freshVar(fmt.Sprintf("%s[%d]", name, i), TU8)
		}
		return Str{b: s}
	})
	regSimple(v+"Choose", func(in *Interp, a []Value) Value {
		name := cstr(in, a[0], "choice name")
		lo, hi := in.asInt(a[1], "Choose lo"), in.asInt(a[2], "Choose hi")
		return in.tb.Int(TI64, in.choose(name, lo, hi))
	})
	regSimple(v+"Bound", func(in *Interp, a []Value) Value {
		name := cstr(in, a[0], "bound name")
		def := in.asInt(a[1], "bound default")
		if b, ok := in.cfg.Bounds[name]; ok {
			return in.tb.Int(TI64, int64(b))
		}
		return in.tb.Int(TI64, def)
	})
	regSimple(v+"Assume", func(in *Interp, a []Value) Value { in.assume(a[0].(*Term)); return nil })
	regSimple(v+"Assert", func(in *Interp, a []Value) Value {
		in.assertProp(a[0].(*Term), cstr(in, a[1], "assertion label"))
		return nil
	})
	regSimple(v+"Reach", func(in *Interp, a []Value) Value {
		in.ex.reached = append(in.ex.reached, cstr(in, a[0], "reach label"))
		return nil
	})
	regSimple(v+"Symbolic", func(in *Interp, a []Value) Value { return in.tb.True })
	regSimple(v+"And", func(in *Interp, a []Value) Value {
		r := in.tb.True
		for _, x := range a[0].(Slice).a {
			r = in.tb.BAnd(r, x.(*Term))
		}
		return r
	})
	regSimple(v+"Or", func(in *Interp, a []Value) Value {
		r := in.tb.False
		for _, x := range a[0].(Slice).a {
			r = in.tb.BOr(r, x.(*Term))
		}
		return r
	})
	regSimple(v+"Not", func(in *Interp, a []Value) Value { return in.tb.Not(a[0].(*Term)) })
	regSimple(v+"Implies", func(in *Interp, a []Value) Value { return in.tb.Implies(a[0].(*Term), a[1].(*Term)) })
	regSimple(v+"Iff", func(in *Interp, a []Value) Value { return in.tb.Eq(a[0].(*Term), a[1].(*Term)) })
	reg(v+"All", func(in *Interp, caller *frame, _ *ssa.Function, a []Value) (Value, bool) {
		n := int(in.asInt(a[0], "All count"))
		r := in.tb.True
		for i := 0; i < n; i++ {
			x := in.call(caller, a[1], []Value{in.tb.Int(TI64, int64(i))})
			r = in.tb.BAnd(r, x.(*Term))
		}
		return r, true
	})
	reg(v+"Any", func(in *Interp, caller *frame, _ *ssa.Function, a []Value) (Value, bool) {
		n := int(in.asInt(a[0], "Any count"))
		r := in.tb.False
		for i := 0; i < n; i++ {
			x := in.call(caller, a[1], []Value{in.tb.Int(TI64, int64(i))})
			r = in.tb.BOr(r, x.(*Term))
		}
		return r, true
	})
	regSimple(v+"Ite", func(in *Interp, a []Value) Value {
		c := a[0].(*Term)
		x, ok1 := a[1].(*Term)
		y, ok2 := a[2].(*Term)
		if ok1 && ok2 {
			return in.tb.Ite(c, x, y)
		}
		if in.decide(c) {
			return a[1]
		}
		return a[2]
	})
	regSimple(v+"N", func(in *Interp, a []Value) Value {
		var sb strings.Builder
		sb.WriteString(cstr(in, a[0], "name prefix"))
		for _, x := range a[1].(Slice).a {
			fmt.Fprintf(&sb, "_%d", in.asInt(x, "name index"))
		}
		return Str{c: sb.String()}
	})
	reg(v+"Go", func(in *Interp, caller *frame, _ *ssa.Function, a []Value) (Value, bool) {
		if in.sched != nil {
			in.sched.spawn(a[0], nil)
			in.sched.point()
		} else {
			in.ex.pending = append(in.ex.pending, pendingGo{a[0], nil})
		}
		return nil, true
	})
	regSimple(v+"Join", func(in *Interp, a []Value) Value {
		if in.sched != nil {
			in.sched.join()
		} else {
			in.runPending()
		}
		return nil
	})
	regSimple(v+"FSRoot", func(in *Interp, a []Value) Value { in.memfs(); return Str{c: "/memfs"} })
	regSimple(v+"Concrete", func(in *Interp, a []Value) Value {
		return in.tb.Int(TI64, in.concretize(a[0].(*Term), "Concrete()"))
	})
	reg(v+"Panics", func(in *Interp, caller *frame, _ *ssa.Function, a []Value) (r Value, handled bool) {
		handled = true
		defer func() {
			if x := recover(); x != nil {
				if _, ok := x.(targetPanic); ok {
					in.curFr = caller
					r = in.tb.True
					return
				}
				panic(x)
			}
		}()
		in.call(caller, a[0], nil)
		in.curFr = caller
		return in.tb.False, true
	})

	// ---- sync
	lockOps := func(name string, delta int, write bool) {
		regSimple(name, func(in *Interp, a []Value) Value {
			p := a[0].(Ptr)
			if p.cell == nil {
				in.goPanic("runtime error: invalid memory address or nil pointer dereference")
			}
			st := in.mutexes[p.cell]
			switch {
			case delta > 0 && write:
				if st != 0 {
					panic(pathAbort{"deadlock", "Lock of a mutex already held on the single sequential thread"})
				}
				in.mutexes[p.cell] = -1
			case delta > 0:
				if st < 0 {
					panic(pathAbort{"deadlock", "RLock of a mutex write-locked on the single sequential thread"})
				}
				in.mutexes[p.cell] = st + 1
			case write:
				if st != -1 {
					in.goPanic("sync: unlock of unlocked mutex")
				}
				in.mutexes[p.cell] = 0
			default:
				if st <= 0 {
					in.goPanic("sync: RUnlock of unlocked RWMutex")
				}
				in.mutexes[p.cell] = st - 1
			}
			return nil
		})
	}
	lockOps("(*sync.Mutex).Lock", 1, true)
	lockOps("(*sync.Mutex).Unlock", -1, true)
	lockOps("(*sync.RWMutex).Lock", 1, true)
	lockOps("(*sync.RWMutex).Unlock", -1, true)
	lockOps("(*sync.RWMutex).RLock", 1, false)
	lockOps("(*sync.RWMutex).RUnlock", -1, false)
	tryLock := func(name string, write bool) {
		regSimple(name, func(in *Interp, a []Value) Value {
			p := a[0].(Ptr)
			st := in.mutexes[p.cell]
			if write && st == 0 {
				in.mutexes[p.cell] = -1
				return in.tb.True
			}
			if !write && st >= 0 {
				in.mutexes[p.cell] = st + 1
				return in.tb.True
			}
			return in.tb.False
		})
	}
	tryLock("(*sync.Mutex).TryLock", true)
	tryLock("(*sync.RWMutex).TryLock", true)
	tryLock("(*sync.RWMutex).TryRLock", false)
	reg("(*sync.Pool).Get", func(in *Interp, caller *frame, fn *ssa.Function, a []Value) (Value, bool) {
		p := a[0].(Ptr)
		st := (*p.cell).(Struct)
		// find the New field (last field of sync.Pool)
		nf := st[len(st)-1]
		switch f := nf.(type) {
		case *ssa.Function:
			if f == nil {
				return Iface{}, true
			}
		}
		return in.call(caller, nf, nil), true
	})
	regSimple("(*sync.Pool).Put", func(in *Interp, a []Value) Value { return nil })
	regSimple("(*sync.WaitGroup).Add", func(in *Interp, a []Value) Value { return nil })
	regSimple("(*sync.WaitGroup).Done", func(in *Interp, a []Value) Value { return nil })
	regSimple("(*sync.WaitGroup).Wait", func(in *Interp, a []Value) Value { in.runPending(); return nil })
	reg("(*sync.WaitGroup).Go", func(in *Interp, caller *frame, fn *ssa.Function, a []Value) (Value, bool) {
		in.ex.pending = append(in.ex.pending, pendingGo{a[1], nil})
		return nil, true
	})

	// ---- sync/atomic
	for _, t := range []string{"Int32", "Int64", "Uint32", "Uint64", "Uintptr", "Pointer"} {
		t := t
		regSimple("sync/atomic.Load"+t, func(in *Interp, a []Value) Value {
			return in.load(nil2any(), a[0].(Ptr))
		})
		regSimple("sync/atomic.Store"+t, func(in *Interp, a []Value) Value { in.store(a[0].(Ptr), a[1]); return nil })
		regSimple("sync/atomic.Swap"+t, func(in *Interp, a []Value) Value {
			old := in.load(nil2any(), a[0].(Ptr))
			in.store(a[0].(Ptr), a[1])
			return old
		})
		regSimple("sync/atomic.CompareAndSwap"+t, func(in *Interp, a []Value) Value {
			p := a[0].(Ptr)
			cur := in.load(nil2any(), p)
			var eq *Term
			if ct, ok := cur.(*Term); ok {
				o := a[1].(*Term)
				if o.T != ct.T {
					o = in.coerce(o, ct.T)
				}
				eq = in.tb.Eq(ct, o)
			} else {
				eq = in.valuesEqual(nil, cur, a[1])
			}
			if in.decide(eq) {
				in.store(p, a[2])
				return in.tb.True
			}
			return in.tb.False
		})
		if t != "Pointer" {
			regSimple("sync/atomic.Add"+t, func(in *Interp, a []Value) Value {
				p := a[0].(Ptr)
				cur := in.load(nil2any(), p).(*Term)
				d := a[1].(*Term)
				if d.T != cur.T {
					d = in.coerce(d, cur.T)
				}
				nv := in.tb.Add(cur, d)
				in.store(p, nv)
				return nv
			})
			regSimple("sync/atomic.And"+t, func(in *Interp, a []Value) Value {
				p := a[0].(Ptr)
				cur := in.load(nil2any(), p).(*Term)
				in.store(p, in.tb.And(cur, a[1].(*Term)))
				return cur
			})
			regSimple("sync/atomic.Or"+t, func(in *Interp, a []Value) Value {
				p := a[0].(Ptr)
				cur := in.load(nil2any(), p).(*Term)
				in.store(p, in.tb.Or(cur, a[1].(*Term)))
				return cur
			})
		}
	}
	// atomic.Value: keep the interface value in field 0
	regSimple("(*sync/atomic.Value).Load", func(in *Interp, a []Value) Value {
		st := (*a[0].(Ptr).cell).(Struct)
		if i, ok := st[0].(Iface); ok {
			return i
		}
		return Iface{}
	})
	regSimple("(*sync/atomic.Value).Store", func(in *Interp, a []Value) Value {
		st := (*a[0].(Ptr).cell).(Struct)
		if a[1].(Iface).t == nil {
			in.goPanic("sync/atomic: store of nil value into Value")
		}
		st[0] = a[1]
		return nil
	})
	regSimple("(*sync/atomic.Value).Swap", func(in *Interp, a []Value) Value {
		st := (*a[0].(Ptr).cell).(Struct)
		old, _ := st[0].(Iface)
		st[0] = a[1]
		return old
	})

	// ---- runtime & friends
	for _, n := range []string{"runtime.KeepAlive", "runtime.SetFinalizer", "runtime.Gosched", "runtime.GC", "time.Sleep",
		"(*strings.Builder).copyCheck", "internal/race.Acquire", "internal/race.Release", "internal/race.ReleaseMerge",
		"internal/race.Read", "internal/race.Write", "internal/race.ReadRange", "internal/race.WriteRange",
		"internal/race.Enable", "internal/race.Disable", "runtime/debug.PrintStack"} {
		regSimple(n, func(in *Interp, a []Value) Value { return nil })
	}
	// scheduling parameters: one processor (goroutines are run sequentially anyway)
	regSimple("runtime.GOMAXPROCS", func(in *Interp, a []Value) Value { return in.tb.Int(TI64, 1) })
	regSimple("runtime.NumCPU", func(in *Interp, a []Value) Value { return in.tb.Int(TI64, 1) })
	regSimple("internal/abi.NoEscape", func(in *Interp, a []Value) Value { return a[0] })
	regSimple("internal/abi.Escape", func(in *Interp, a []Value) Value { return a[0] })
	regSimple("internal/bytealg.MakeNoZero", func(in *Interp, a []Value) Value {
		n := int(in.asInt(a[0], "MakeNoZero len"))
		s := make([]Value, n)
		for i := range s {
			s[i] = in.byteTab[0]
		}
		return Slice{a: s}
	})
	regSimple("runtime/debug.Stack", func(in *Interp, a []Value) Value { return Slice{a: []Value{}} })

	// ---- math
	regSimple("math.Float64bits", func(in *Interp, a []Value) Value { return in.tb.F2Bits(a[0].(*Term)) })
	regSimple("math.Float32bits", func(in *Interp, a []Value) Value { return in.tb.F2Bits(a[0].(*Term)) })
	regSimple("math.Float64frombits", func(in *Interp, a []Value) Value { return in.tb.Bits2F(a[0].(*Term)) })
	regSimple("math.Float32frombits", func(in *Interp, a []Value) Value { return in.tb.Bits2F(a[0].(*Term)) })
	regSimple("math.IsNaN", func(in *Interp, a []Value) Value { return in.tb.FIsNaN(a[0].(*Term)) })
	regSimple("math.IsInf", func(in *Interp, a []Value) Value {
		tb := in.tb
		b := tb.And(tb.F2Bits(a[0].(*Term)), tb.Const(TU64, ^uint64(0)>>1))
		isinf := tb.Eq(b, tb.Const(TU64, 0x7FF0000000000000))
		neg := tb.Ne(tb.And(tb.F2Bits(a[0].(*Term)), tb.Const(TU64, 1<<63)), tb.Const(TU64, 0))
		s := a[1].(*Term)
		zero := tb.Const(s.T, 0)
		return tb.BAnd(isinf, tb.BOr(tb.BAnd(tb.Le(zero, s), tb.Not(neg)), tb.BAnd(tb.Le(s, zero), neg)))
	})
	regSimple("math.Abs", func(in *Interp, a []Value) Value {
		tb := in.tb
		return tb.Bits2F(tb.And(tb.F2Bits(a[0].(*Term)), tb.Const(TU64, ^uint64(0)>>1)))
	})
	math1 := func(name string, f func(float64) float64) {
		regSimple(name, func(in *Interp, a []Value) Value {
			x := a[0].(*Term)
			if !x.IsConst() {
				in.inconclusive("%s on a symbolic float", name)
			}
			return in.tb.Const(TF64, math.Float64bits(f(f64(x.V))))
		})
	}
	math1("math.Floor", math.Floor)
	math1("math.Ceil", math.Ceil)
	math1("math.Trunc", math.Trunc)
	math1("math.Sqrt", math.Sqrt)
	math1("math.Log", math.Log)
	math1("math.Log10", math.Log10)
	math1("math.Log2", math.Log2)
	math1("math.Exp", math.Exp)
	math1("math.Round", math.Round)
	math2 := func(name string, f func(a, b float64) float64) {
		regSimple(name, func(in *Interp, a []Value) Value {
			x, y := a[0].(*Term), a[1].(*Term)
			if !x.IsConst() || !y.IsConst() {
				in.inconclusive("%s on a symbolic float", name)
			}
			return in.tb.Const(TF64, math.Float64bits(f(f64(x.V), f64(y.V))))
		})
	}
	math2("math.Pow", math.Pow)
	math2("math.Mod", math.Mod)

	// ---- math/bits
	bitcnt := func(name string, op Op, w uint8, lenForm bool) {
		regSimple(name, func(in *Interp, a []Value) Value {
			tb := in.tb
			x := a[0].(*Term)
			if x.T.W != w {
				x = tb.Conv(x, Typ{KInt, w, false})
			}
			r := tb.un(op, x.T, x)
			r = tb.Conv(r, TI64)
			if lenForm {
				r = tb.Sub(tb.Int(TI64, int64(w)), r)
			}
			return r
		})
	}
	for _, w := range []uint8{8, 16, 32, 64} {
		s := fmt.Sprint(w)
		bitcnt("math/bits.LeadingZeros"+s, OpLZ, w, false)
		bitcnt("math/bits.TrailingZeros"+s, OpTZ, w, false)
		bitcnt("math/bits.OnesCount"+s, OpPop, w, false)
		bitcnt("math/bits.Len"+s, OpLZ, w, true)
	}
	bitcnt("math/bits.LeadingZeros", OpLZ, 64, false)
	bitcnt("math/bits.TrailingZeros", OpTZ, 64, false)
	bitcnt("math/bits.OnesCount", OpPop, 64, false)
	bitcnt("math/bits.Len", OpLZ, 64, true)
	_ = bits.Len

	// ---- internal/bytealg
	regSimple("internal/bytealg.IndexByte", func(in *Interp, a []Value) Value {
		return in.indexByte(sliceTerms(in, a[0]), a[1].(*Term))
	})
	regSimple("internal/bytealg.IndexByteString", func(in *Interp, a []Value) Value {
		return in.indexByte(in.strBytes(a[0].(Str)), a[1].(*Term))
	})
	regSimple("internal/bytealg.Count", func(in *Interp, a []Value) Value {
		return in.countByte(sliceTerms(in, a[0]), a[1].(*Term))
	})
	regSimple("internal/bytealg.CountString", func(in *Interp, a []Value) Value {
		return in.countByte(in.strBytes(a[0].(Str)), a[1].(*Term))
	})
	regSimple("internal/bytealg.Compare", func(in *Interp, a []Value) Value {
		return in.bytesCmp(sliceTerms(in, a[0]), sliceTerms(in, a[1]))
	})
	regSimple("internal/bytealg.CompareString", func(in *Interp, a []Value) Value {
		return in.bytesCmp(in.strBytes(a[0].(Str)), in.strBytes(a[1].(Str)))
	})
	regSimple("internal/bytealg.Equal", func(in *Interp, a []Value) Value {
		x, y := sliceTerms(in, a[0]), sliceTerms(in, a[1])
		return in.strEq(Str{b: x}.norm(), Str{b: y}.norm())
	})
	regSimple("internal/bytealg.Index", func(in *Interp, a []Value) Value {
		return in.indexSeq(sliceTerms(in, a[0]), sliceTerms(in, a[1]))
	})
	regSimple("internal/bytealg.IndexString", func(in *Interp, a []Value) Value {
		return in.indexSeq(in.strBytes(a[0].(Str)), in.strBytes(a[1].(Str)))
	})
	regSimple("bytes.Index", func(in *Interp, a []Value) Value {
		return in.indexSeq(sliceTerms(in, a[0]), sliceTerms(in, a[1]))
	})
	regSimple("strings.Index", func(in *Interp, a []Value) Value {
		return in.indexSeq(in.strBytes(a[0].(Str)), in.strBytes(a[1].(Str)))
	})
	regSimple("bytes.Equal", func(in *Interp, a []Value) Value {
		x, y := sliceTerms(in, a[0]), sliceTerms(in, a[1])
		return in.strEq(Str{b: x}.norm(), Str{b: y}.norm())
	})
	regSimple("bytes.Compare", func(in *Interp, a []Value) Value {
		return in.bytesCmp(sliceTerms(in, a[0]), sliceTerms(in, a[1]))
	})
	regSimple("strings.Compare", func(in *Interp, a []Value) Value {
		return in.bytesCmp(in.strBytes(a[0].(Str)), in.strBytes(a[1].(Str)))
	})
}

func nil2any() types.Type { return types.Typ[types.UntypedNil] }

// norm: Str with explicit bytes even when empty
func (s Str) norm() Str {
	if s.b != nil && len(s.b) == 0 {
		return Str{}
	}
	return s
}

func sliceTerms(in *Interp, v Value) []*Term {
	s := v.(Slice)
	r := make([]*Term, len(s.a))
	for i, c := range s.a {
		t := c.(*Term)
		if t.T != TU8 {
			t = in.coerce(t, TU8)
		}
		r[i] = t
	}
	return r
}

func (in *Interp) indexByte(b []*Term, c *Term) *Term {
	tb := in.tb
	if c.T != TU8 {
		c = tb.Conv(c, TU8)
	}
	r := tb.Int(TI64, -1)
	for i := len(b) - 1; i >= 0; i-- {
		r = tb.Ite(tb.Eq(b[i], c), tb.Int(TI64, int64(i)), r)
	}
	return r
}

func (in *Interp) countByte(b []*Term, c *Term) *Term {
	tb := in.tb
	if c.T != TU8 {
		c = tb.Conv(c, TU8)
	}
	r := tb.Int(TI64, 0)
	for i := range b {
		r = tb.Add(r, tb.Ite(tb.Eq(b[i], c), tb.Int(TI64, 1), tb.Int(TI64, 0)))
	}
	return r
}

func (in *Interp) indexSeq(h, n []*Term) *Term {
	tb := in.tb
	if len(n) == 0 {
		return tb.Int(TI64, 0)
	}
	r := tb.Int(TI64, -1)
	for i := len(h) - len(n); i >= 0; i-- {
		m := tb.True
		for j := len(n) - 1; j >= 0; j-- {
			m = tb.BAnd(tb.Eq(h[i+j], n[j]), m)
		}
		r = tb.Ite(m, tb.Int(TI64, int64(i)), r)
	}
	return r
}

// ---- encoding/binary: recognise the bytes of a value written by PutUintN and read it back as
// the original term (otherwise fall through to the real body). Pure term-level simplification.
func init() {
	for _, be := range []bool{true, false} {
		for _, w := range []int{2, 4, 8} {
			be, w := be, w
			recv := "(encoding/binary.bigEndian)"
			if !be {
				recv = "(encoding/binary.littleEndian)"
			}
			name := fmt.Sprintf("%s.Uint%d", recv, w*8)
			reg(name, func(in *Interp, caller *frame, fn *ssa.Function, a []Value) (Value, bool) {
				s := a[1].(Slice)
				if len(s.a) < w {
					return nil, false // real body panics appropriately
				}
				var x *Term
				for i := 0; i < w; i++ {
					bt, ok := s.a[i].(*Term)
					if !ok {
						return nil, false
					}
					sh := uint64(8 * i)
					if be {
						sh = uint64(8 * (w - 1 - i))
					}
					src, k, ok := byteSource(bt)
					if !ok || k != sh || int(src.T.W) != w*8 {
						x = nil
						break
					}
					if i == 0 {
						x = src
					} else if x != src {
						x = nil
						break
					}
				}
				if x == nil {
					return nil, false
				}
				return in.tb.Conv(x, Typ{KInt, uint8(w * 8), false}), true
			})
		}
	}
}

// byteSource matches  byte(x >> k)  (k constant, possibly 0).
func byteSource(b *Term) (x *Term, k uint64, ok bool) {
	if b.Op != OpConv || b.T.W != 8 || b.A == nil {
		return nil, 0, false
	}
	a := b.A
	if a.Op == OpShr && a.B.IsConst() {
		return a.A, a.B.V, true
	}
	if a.T.K == KInt {
		return a, 0, true
	}
	return nil, 0, false
}
