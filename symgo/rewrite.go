package main

// Native counterpart of "harness:" stubs: for a stubbed function that lives in a /repo
// package, the native replay build gets (through the build overlay, nothing is written
// under /repo) a copy of the defining file in which the original declaration is renamed
// and a forwarding declaration calls the harness function instead.

import (
	"bytes"
	"fmt"
	"go/ast"
	"go/parser"
	"go/printer"
	"go/token"
	"os"
	"path/filepath"
	"strings"
)

// parseStubTarget splits "pkg.Func", "(*pkg.T).M" or "(pkg.T).M".
func parseStubTarget(k string) (pkg, recv, name string, ptr bool, ok bool) {
	if strings.HasPrefix(k, "(") {
		end := strings.Index(k, ").")
		if end < 0 {
			return
		}
		inner := k[1:end]
		name = k[end+2:]
		if strings.HasPrefix(inner, "*") {
			ptr = true
			inner = inner[1:]
		}
		i := strings.LastIndex(inner, ".")
		if i < 0 {
			return
		}
		return inner[:i], inner[i+1:], name, ptr, true
	}
	i := strings.LastIndex(k, ".")
	if i < 0 {
		return
	}
	return k[:i], "", k[i+1:], false, true
}

// rewriteStubs returns overlay entries (original file -> rewritten file) for the given stubs.
func rewriteStubs(stubs map[string]string, unitPkg string, outDir string, override map[string]string) (map[string]string, []string) {
	srcOf := func(p string) any {
		if o, ok := override[p]; ok {
			if b, err := os.ReadFile(o); err == nil {
				return b
			}
		}
		return nil
	}
	repl := map[string]string{}
	var notes []string
	type edit struct{ recv, name, harness string }
	byFile := map[string][]edit{}
	for k, v := range stubs {
		if !strings.HasPrefix(v, "harness:") {
			continue
		}
		pkg, recv, name, _, ok := parseStubTarget(k)
		if !ok || !strings.HasPrefix(pkg, modulePath) {
			continue // std / third-party: the native run uses the real function
		}
		if pkg != unitPkg {
			notes = append(notes, "stub "+k+" is outside the harness package; native replay uses the real function")
			continue
		}
		dir := pkgDir(pkg)
		ents, _ := os.ReadDir(dir)
		found := false
		for _, e := range ents {
			if e.IsDir() || !strings.HasSuffix(e.Name(), ".go") || strings.HasSuffix(e.Name(), "_test.go") {
				continue
			}
			p := filepath.Join(dir, e.Name())
			fset := token.NewFileSet()
			f, err := parser.ParseFile(fset, p, srcOf(p), parser.SkipObjectResolution)
			if err != nil {
				continue
			}
			for _, d := range f.Decls {
				fd, ok := d.(*ast.FuncDecl)
				if !ok || fd.Name.Name != name {
					continue
				}
				if recvName(fd) != recv {
					continue
				}
				byFile[p] = append(byFile[p], edit{recv, name, strings.TrimPrefix(v, "harness:")})
				found = true
			}
		}
		if !found {
			notes = append(notes, "stub target "+k+" not found in sources")
		}
	}
	for p, eds := range byFile {
		fset := token.NewFileSet()
		f, err := parser.ParseFile(fset, p, srcOf(p), parser.ParseComments|parser.SkipObjectResolution)
		if err != nil {
			continue
		}
		var extra bytes.Buffer
		for _, ed := range eds {
			for _, d := range f.Decls {
				fd, ok := d.(*ast.FuncDecl)
				if !ok || fd.Name.Name != ed.name || recvName(fd) != ed.recv {
					continue
				}
				// forwarding declaration text
				var args []string
				recvTxt := ""
				if fd.Recv != nil && len(fd.Recv.List) == 1 {
					r := fd.Recv.List[0]
					rn := "r__"
					if len(r.Names) == 1 && r.Names[0].Name != "_" {
						rn = r.Names[0].Name
					}
					recvTxt = "(" + rn + " " + nodeText(fset, r.Type) + ") "
					args = append(args, rn)
				}
				var params []string
				pi := 0
				for _, fl := range fd.Type.Params.List {
					tt := nodeText(fset, fl.Type)
					names := fl.Names
					if len(names) == 0 {
						names = []*ast.Ident{ast.NewIdent("_")}
					}
					for _, n := range names {
						pn := n.Name
						if pn == "_" || pn == "" {
							pn = fmt.Sprintf("p%d__", pi)
						}
						pi++
						params = append(params, pn+" "+tt)
						if strings.HasPrefix(tt, "...") {
							args = append(args, pn+"...")
						} else {
							args = append(args, pn)
						}
					}
				}
				res := ""
				ret := ""
				if fd.Type.Results != nil && len(fd.Type.Results.List) > 0 {
					var rs []string
					for _, fl := range fd.Type.Results.List {
						n := len(fl.Names)
						if n == 0 {
							n = 1
						}
						for i := 0; i < n; i++ {
							rs = append(rs, nodeText(fset, fl.Type))
						}
					}
					res = " (" + strings.Join(rs, ", ") + ")"
					ret = "return "
				}
				tparams := ""
				if fd.Type.TypeParams != nil {
					continue // generic functions are not rewritten
				}
				fmt.Fprintf(&extra, "\nfunc %s%s%s(%s)%s { %s%s(%s) }\n", recvTxt, ed.name, tparams, strings.Join(params, ", "), res, ret, ed.harness, strings.Join(args, ", "))
				fd.Name.Name = ed.name + "__verifOrig"
			}
		}
		var out bytes.Buffer
		if err := printer.Fprint(&out, fset, f); err != nil {
			continue
		}
		out.Write(extra.Bytes())
		dst := filepath.Join(outDir, "stub_"+strings.ReplaceAll(strings.TrimPrefix(p, repoDir+"/"), "/", "_"))
		if err := os.WriteFile(dst, out.Bytes(), 0o644); err == nil {
			repl[p] = dst
		}
	}
	return repl, notes
}

func recvName(fd *ast.FuncDecl) string {
	if fd.Recv == nil || len(fd.Recv.List) == 0 {
		return ""
	}
	t := fd.Recv.List[0].Type
	if s, ok := t.(*ast.StarExpr); ok {
		t = s.X
	}
	switch x := t.(type) {
	case *ast.Ident:
		return x.Name
	case *ast.IndexExpr:
		if id, ok := x.X.(*ast.Ident); ok {
			return id.Name
		}
	}
	return ""
}

func nodeText(fset *token.FileSet, n ast.Node) string {
	var b bytes.Buffer
	printer.Fprint(&b, fset, n)
	return b.String()
}

// outDir is /verif, or a scratch directory when the self-test runs against a copy of the repository
// (so that seeded runs never overwrite the committed evidence).
func outDir() string {
	if cacheTag != "" {
		return "/tmp/verif-alt"
	}
	return verifDir
}
