package main

// encoding/binary.Uvarint: recognise, at term level, the byte sequence that PutUvarint wrote for a
// value x (bytes  byte(x_i)|0x80 ... byte(x_k)  with x_{i+1} = x_i >> 7) and return x directly, so
// that a varint round trip does not have to be re-derived digit by digit by the solver. Anything
// that does not match falls through to the real body.

import (
	"golang.org/x/tools/go/ssa"
)

func init() {
	reg("encoding/binary.Uvarint", func(in *Interp, caller *frame, fn *ssa.Function, a []Value) (Value, bool) {
		s := a[0].(Slice)
		tb := in.tb
		var y0, y *Term
		for i := 0; i < len(s.a) && i < 10; i++ {
			bt, ok := s.a[i].(*Term)
			if !ok || bt.IsConst() {
				return nil, false
			}
			// continuation byte:  byte(y) | 0x80
			if bt.Op == OpOr && bt.B != nil && bt.B.IsConst() && bt.B.V == 0x80 && bt.A.Op == OpConv && bt.A.T.W == 8 {
				src := bt.A.A
				if src.T.K != KInt || src.T.W != 64 {
					return nil, false
				}
				if i == 0 {
					y0, y = src, src
				} else if src != tb.Shr(y, tb.Const(TU64, 7)) {
					return nil, false
				} else {
					y = src
				}
				continue
			}
			// final byte: byte(y)
			if bt.Op == OpConv && bt.T.W == 8 && bt.A.T.K == KInt && bt.A.T.W == 64 {
				src := bt.A
				if i == 0 {
					y0 = src
				} else if src != tb.Shr(y, tb.Const(TU64, 7)) {
					return nil, false
				}
				if !in.decide(tb.Lt(bt, tb.Const(TU8, 0x80))) {
					return nil, false
				}
				return Tuple{tb.Conv(y0, TU64), tb.Int(TI64, int64(i+1))}, true
			}
			return nil, false
		}
		return nil, false
	})
}
