package main

// Cooperative scheduler (opt-in: spec entry "sched": true). The interpreted goroutines of one path run
// one at a time, each on its own host goroutine, passing a baton. A goroutine gives up the baton
//   - when it blocks (mutex held, channel empty/full, WaitGroup non-zero, vrt.Join): the next goroutine
//     to run is a decision of the path (a Choose named sched_<n>) when more than one can run;
//   - at a schedule point — a mutex or atomic operation issued by code of the scheduled packages, or
//     vrt.Go — where, while fewer than PREEMPT pre-emptive switches were made, switching to any other
//     runnable goroutine is a decision too.
// Every schedule within these bounds is therefore explored like every other decision, and the choices
// land in the replay file, where the native runtime (zzverifrt/sched.go) re-enacts them on the compiled
// code, whose mutex/atomic calls the replay build rewrites into the same schedule points.
// Interleavings at plain memory accesses between two schedule points are outside the claim.

import (
	"fmt"
	"os"
	"strings"
	"sync"

	"golang.org/x/tools/go/ssa"
)

var schedTrace = os.Getenv("VERIF_SCHEDTRACE") != ""

type killSignal struct{}

type gthread struct {
	id     int
	resume chan bool
	done   bool
	ready  func() bool // nil: runnable
	why    string
	curFr  *frame
}

type scheduler struct {
	in         *Interp
	threads    []*gthread
	cur        *gthread
	n          int // schedule decisions offered so far (names the Choose)
	preempts   int
	picks      int
	free       int // >0 while a goroutine started by a plain go statement runs (to completion, unscheduled)
	maxPicks   int
	maxPreempt int
	fatal      any
	wg         sync.WaitGroup
	pkgs       map[string]bool
	wgs        map[*Value]int64
	conds      map[*Value]int // sync.Cond: number of Broadcast/Signal calls so far
}

func newScheduler(in *Interp) *scheduler {
	s := &scheduler{in: in, maxPreempt: 1, pkgs: map[string]bool{}, wgs: map[*Value]int64{}, conds: map[*Value]int{}}
	if b, ok := in.cfg.Bounds["PREEMPT"]; ok {
		s.maxPreempt = b
	}
	s.maxPicks = 4
	if b, ok := in.cfg.Bounds["PICKS"]; ok {
		s.maxPicks = b
	}
	for _, p := range in.cfg.SchedPkgs {
		s.pkgs[p] = true
	}
	main := &gthread{id: 0, resume: make(chan bool)}
	s.threads = []*gthread{main}
	s.cur = main
	return s
}

func (s *scheduler) runnable(t *gthread) bool {
	return !t.done && (t.ready == nil || t.ready())
}

func (s *scheduler) others() []*gthread {
	var r []*gthread
	for _, t := range s.threads {
		if t != s.cur && s.runnable(t) {
			r = append(r, t)
		}
	}
	return r
}

// countable: the operation is issued by code of a scheduled package (those are the operations the
// native replay build turns into schedule points).
func (s *scheduler) countable(caller *frame) bool {
	for caller != nil {
		fn := caller.fn
		if fn.Origin() != nil {
			fn = fn.Origin()
		}
		for fn.Parent() != nil {
			fn = fn.Parent()
		}
		if fn.Pkg == nil {
			return false
		}
		p := fn.Pkg.Pkg.Path()
		if p == "sync/atomic" {
			caller = caller.caller // typed atomics (atomic.Int64, ...): attribute to their caller
			continue
		}
		return s.pkgs[p]
	}
	return false
}

func (s *scheduler) spawn(fn Value, args []Value) {
	in := s.in
	t := &gthread{id: len(s.threads), resume: make(chan bool)}
	s.threads = append(s.threads, t)
	s.wg.Add(1)
	go func() {
		defer s.wg.Done()
		if !<-t.resume {
			t.done = true
			return
		}
		var next *gthread
		r := s.protect(func() {
			in.curFr = nil
			in.call(nil, fn, args)
			t.done = true
			next = s.pick("goroutine ended")
		})
		t.done = true
		if _, killed := r.(killSignal); killed {
			return
		}
		if r != nil {
			if tp, ok := r.(targetPanic); ok {
				// an uncaught panic in a goroutine ends the program: nothing in another goroutine recovers it
				msg := in.panicString(tp.v)
				if tp.pos != "" {
					msg += " at " + tp.pos
				}
				r = pathAbort{"violated", "uncaught panic in a goroutine: " + msg}
				if !in.cfg.ExpectPanic {
					if r2 := s.protect(func() {
						in.reportViolation("panic", "uncaught panic", msg+" (in a spawned goroutine)", in.ex.model)
					}); r2 != nil {
						r = r2
					}
				}
			}
			s.fatal = r
			next = s.threads[0]
		} else if next == nil {
			s.fatal = pathAbort{"blocked", "all goroutines blocked: " + s.describe()}
			next = s.threads[0]
		}
		s.cur = next
		next.resume <- true
	}()
}

func (s *scheduler) protect(f func()) (r any) {
	defer func() { r = recover() }()
	f()
	return nil
}

func (s *scheduler) describe() string {
	d := ""
	for _, t := range s.threads {
		if !t.done {
			d += fmt.Sprintf("[g%d: %s] ", t.id, t.why)
		}
	}
	return d
}

// runFree: a plain go statement of the code under test. Only goroutines started with vrt.Go are
// interleaved; these run to completion at the go statement (natively they run unscheduled).
func (s *scheduler) runFree(fn Value, args []Value) {
	s.free++
	saved := s.in.curFr
	defer func() { s.free--; s.in.curFr = saved }()
	s.in.call(nil, fn, args)
}

// pick chooses the goroutine that runs next when the current one cannot go on (a decision of the path
// when there is more than one candidate); nil if none can run.
func (s *scheduler) pick(why string) *gthread {
	o := s.others()
	if len(o) == 0 {
		return nil
	}
	if len(o) == 1 || s.picks >= s.maxPicks {
		return o[0] // beyond PICKS free choices: lowest id first
	}
	s.picks++
	s.n++
	v := s.in.choose(fmt.Sprintf("sched_%d", s.n), 0, int64(len(o)-1))
	if schedTrace {
		fmt.Fprintf(os.Stderr, "SCHED pick #%d by g%d (%s): %d candidates -> g%d\n", s.n, s.cur.id, why, len(o), o[v].id)
	}
	return o[v]
}

func (s *scheduler) switchTo(next *gthread) {
	me := s.cur
	if next == me {
		return
	}
	me.curFr = s.in.curFr
	s.cur = next
	next.resume <- true
	if !<-me.resume {
		panic(killSignal{})
	}
	s.in.curFr = me.curFr
	if s.fatal != nil && me.id == 0 {
		f := s.fatal
		s.fatal = nil
		panic(f)
	}
}

// point: a place where the running goroutine may be pre-empted.
func (s *scheduler) point() {
	if s.in.spec != nil {
		panic(pathAbort{"nospec", "schedule point inside a speculatively executed block"})
	}
	if s.free > 0 || s.preempts >= s.maxPreempt {
		return
	}
	o := s.others()
	if len(o) == 0 {
		return
	}
	s.n++
	v := s.in.choose(fmt.Sprintf("sched_%d", s.n), 0, int64(len(o)))
	if schedTrace {
		where := ""
		if s.in.curFr != nil {
			where = s.in.curFr.fn.String()
		}
		fmt.Fprintf(os.Stderr, "SCHED point #%d in g%d at %s: %d others -> %d\n", s.n, s.cur.id, where, len(o), v)
	}
	if v > 0 {
		s.preempts++
		// reachability witness of the schedule exploration: some explored path has this many pre-emptions
		s.in.ex.reached = append(s.in.ex.reached, fmt.Sprintf("preempted x%d", s.preempts))
		s.switchTo(o[v-1])
	}
}

// block parks the running goroutine until ready() holds.
func (s *scheduler) block(ready func() bool, why string) {
	if s.in.spec != nil {
		panic(pathAbort{"nospec", "blocking operation inside a speculatively executed block"})
	}
	me := s.cur
	if s.free > 0 && !ready() {
		panic(pathAbort{"blocked", "a goroutine started by a plain go statement would block (" + why + "); under the scheduler those run to completion at the go statement"})
	}
	for !ready() {
		me.ready, me.why = ready, why
		next := s.pick(why)
		if next == nil {
			me.ready = nil
			ab := pathAbort{"blocked", "all goroutines blocked: " + s.describe()}
			if me.id == 0 {
				panic(ab)
			}
			s.fatal = ab
			next = s.threads[0]
			// main is parked (blocked) — wake it so that it ends the path
		}
		s.switchTo(next)
		me.ready = nil
	}
}

// killAll ends the host goroutines of the path.
func (s *scheduler) killAll() {
	for _, t := range s.threads[1:] {
		if !t.done {
			t.resume <- false
		}
	}
	s.wg.Wait()
}

// join: vrt.Join — the calling goroutine waits for all the others.
func (s *scheduler) join() {
	me := s.cur
	s.block(func() bool {
		for _, t := range s.threads {
			if t != me && !t.done {
				return false
			}
		}
		return true
	}, "vrt.Join")
}

// ---- the synchronisation operations under the scheduler

func (s *scheduler) lockOp(caller *frame, a []Value, delta int, write bool) {
	in := s.in
	p := a[0].(Ptr)
	if p.cell == nil {
		in.goPanic("runtime error: invalid memory address or nil pointer dereference")
	}
	cnt := s.countable(caller)
	switch {
	case delta > 0 && write:
		if cnt {
			s.point()
		}
		s.block(func() bool { return in.mutexes[p.cell] == 0 }, "Lock")
		in.mutexes[p.cell] = -1
	case delta > 0:
		if cnt {
			s.point()
		}
		s.block(func() bool { return in.mutexes[p.cell] >= 0 }, "RLock")
		in.mutexes[p.cell]++
	case write:
		if in.mutexes[p.cell] != -1 {
			in.goPanic("sync: unlock of unlocked mutex")
		}
		in.mutexes[p.cell] = 0
		if cnt {
			s.point()
		}
	default:
		if in.mutexes[p.cell] <= 0 {
			in.goPanic("sync: RUnlock of unlocked RWMutex")
		}
		in.mutexes[p.cell]--
		if cnt {
			s.point()
		}
	}
}

var schedLockOps = map[string][2]int{
	"(*sync.Mutex).Lock": {1, 1}, "(*sync.Mutex).Unlock": {-1, 1},
	"(*sync.RWMutex).Lock": {1, 1}, "(*sync.RWMutex).Unlock": {-1, 1},
	"(*sync.RWMutex).RLock": {1, 0}, "(*sync.RWMutex).RUnlock": {-1, 0},
}

// intercept handles the calls whose meaning changes under the scheduler.
func (s *scheduler) intercept(name string, caller *frame, fn *ssa.Function, a []Value, base intrinsic) (Value, bool) {
	in := s.in
	if op, ok := schedLockOps[name]; ok {
		s.lockOp(caller, a, op[0], op[1] == 1)
		return nil, true
	}
	switch name {
	case "(*sync.WaitGroup).Add":
		p := a[0].(Ptr)
		s.wgs[p.cell] += in.asInt(a[1], "WaitGroup.Add delta")
		if s.wgs[p.cell] < 0 {
			in.goPanic("sync: negative WaitGroup counter")
		}
		return nil, true
	case "(*sync.WaitGroup).Done":
		p := a[0].(Ptr)
		s.wgs[p.cell]--
		if s.wgs[p.cell] < 0 {
			in.goPanic("sync: negative WaitGroup counter")
		}
		return nil, true
	case "(*sync.WaitGroup).Wait":
		p := a[0].(Ptr)
		s.block(func() bool { return s.wgs[p.cell] == 0 }, "WaitGroup.Wait")
		return nil, true
	case "(*sync.WaitGroup).Go":
		s.runFree(a[1], nil)
		return nil, true
	case "(*sync.Cond).Wait":
		// struct Cond { noCopy; L Locker; notify; checker }: L is a *sync.Mutex / *sync.RWMutex
		c := a[0].(Ptr)
		if c.cell == nil {
			in.goPanic("runtime error: invalid memory address or nil pointer dereference")
		}
		l, _ := (*c.cell).(Struct)[1].(Iface)
		lp, ok := l.v.(Ptr)
		if !ok || lp.cell == nil {
			in.unsupported("sync.Cond with a Locker that is not a mutex pointer")
		}
		if s.countable(caller) {
			s.point()
		}
		if in.mutexes[lp.cell] != -1 {
			in.goPanic("sync: unlock of unlocked mutex")
		}
		in.mutexes[lp.cell] = 0
		g := s.conds[c.cell]
		s.block(func() bool { return s.conds[c.cell] != g }, "Cond.Wait")
		s.block(func() bool { return in.mutexes[lp.cell] == 0 }, "Cond.Wait (relock)")
		in.mutexes[lp.cell] = -1
		return nil, true
	case "(*sync.Cond).Broadcast", "(*sync.Cond).Signal":
		// Signal is treated like Broadcast (every waiter re-tests its condition; Wait is always used in a loop)
		c := a[0].(Ptr)
		s.conds[c.cell]++
		if s.countable(caller) {
			s.point()
		}
		return nil, true
	case "runtime.Gosched", "time.Sleep":
		if s.countable(caller) {
			s.point()
		}
		return nil, true
	}
	if base != nil && (strings.Contains(name, "sync/atomic.") || strings.HasPrefix(name, "(*sync.Map).")) {
		// the schedule point comes before the operation (natively: SchedFn / SchedRecv)
		if s.countable(caller) {
			s.point()
		}
		return base(in, caller, fn, a)
	}
	return nil, false
}
