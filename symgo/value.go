package main

// Interpreter values. Scalars are *Term (possibly constant); aggregates hold
// cells ([]Value) so that native Go pointers (*Value) serve as addresses.

import (
	"fmt"
	"go/constant"
	"go/types"
	"strings"

	"golang.org/x/tools/go/ssa"
)

type Value = any

// Str is a Go string of concrete length. If b == nil the content is the concrete c.
type Str struct {
	c      string
	b      []*Term // len(b) == length when non-nil; each of type u8
	opaque bool    // content unknown (result of formatting symbolic values)
	ne     bool    // opaque content known to be non-empty (the format has literal text)
}

type Struct []Value
type Array []Value
type Tuple []Value

type Slice struct {
	a []Value // nil slice <=> a == nil
}

// Ptr is an address. cell != nil: a concrete cell. idx != nil: element arr[idx] with
// symbolic idx already known to be in bounds. arr (when cell != nil and the cell is an
// array/slice element) is the backing store starting at that element.
type Ptr struct {
	cell *Value
	arr  []Value
	idx  *Term
	// for unsafe reinterpretation: element type the cells were allocated with
}

func (p Ptr) isNil() bool { return p.cell == nil && p.idx == nil }

type Iface struct {
	t types.Type
	v Value
}

type Closure struct {
	fn  *ssa.Function
	env []Value
}

// NativeFn is a callable implemented by the engine.
type NativeFn struct {
	name string
	f    func(in *Interp, args []Value) Value
}

type mapEntry struct {
	key, val Value
	ck       string
	hasCK    bool
	dead     bool
}

type Map struct {
	kt      types.Type
	entries []*mapEntry
	idx     map[string]*mapEntry
	n       int
}

type Chan struct {
	buf    []Value
	cap    int
	closed bool
	elem   types.Type
	sent, recvd int // under the scheduler: rendezvous bookkeeping of an unbuffered channel
}

type mapIter struct {
	m   *Map
	pos int
}

type strIter struct {
	s   Str
	pos int
}

type bad struct{}

// ---------------------------------------------------------------------------

func typOfBasic(b *types.Basic) (Typ, bool) {
	switch b.Kind() {
	case types.Bool, types.UntypedBool:
		return TBool, true
	case types.Int, types.Int64, types.UntypedInt:
		return TI64, true
	case types.Int8:
		return Typ{KInt, 8, true}, true
	case types.Int16:
		return Typ{KInt, 16, true}, true
	case types.Int32, types.UntypedRune:
		return TI32, true
	case types.Uint, types.Uint64, types.Uintptr:
		return TU64, true
	case types.Uint8:
		return TU8, true
	case types.Uint16:
		return Typ{KInt, 16, false}, true
	case types.Uint32:
		return TU32, true
	case types.Float64, types.UntypedFloat:
		return TF64, true
	case types.Float32:
		return TF32, true
	}
	return Typ{}, false
}

// scalarTyp returns the term type for a Go type whose values are *Term.
func scalarTyp(t types.Type) (Typ, bool) {
	if b, ok := t.Underlying().(*types.Basic); ok {
		return typOfBasic(b)
	}
	return Typ{}, false
}

func (in *Interp) zero(t types.Type) Value {
	switch u := t.Underlying().(type) {
	case *types.Basic:
		if ty, ok := typOfBasic(u); ok {
			return in.tb.Const(ty, 0)
		}
		switch u.Kind() {
		case types.String, types.UntypedString:
			return Str{}
		case types.UnsafePointer:
			return Ptr{}
		case types.UntypedNil:
			return Iface{}
		case types.Complex128, types.Complex64, types.UntypedComplex:
			in.unsupported("complex numbers")
		}
		panic(fmt.Sprintf("zero: basic %v", u))
	case *types.Struct:
		s := make(Struct, u.NumFields())
		for i := range s {
			s[i] = in.zero(u.Field(i).Type())
		}
		return s
	case *types.Array:
		n := int(u.Len())
		a := make(Array, n)
		if n > 0 {
			if _, ok := scalarTyp(u.Elem()); ok {
				z := in.zero(u.Elem())
				for i := range a {
					a[i] = z
				}
			} else {
				for i := range a {
					a[i] = in.zero(u.Elem())
				}
			}
		}
		return a
	case *types.Pointer:
		return Ptr{}
	case *types.Slice:
		return Slice{}
	case *types.Map:
		return (*Map)(nil)
	case *types.Chan:
		return (*Chan)(nil)
	case *types.Signature:
		return (*ssa.Function)(nil)
	case *types.Interface:
		return Iface{}
	case *types.Tuple:
		tu := make(Tuple, u.Len())
		for i := range tu {
			tu[i] = in.zero(u.At(i).Type())
		}
		return tu
	}
	panic(fmt.Sprintf("zero: unexpected type %T %v", t, t))
}

// copyVal makes an unaliased copy of aggregates.
func copyVal(v Value) Value {
	switch v := v.(type) {
	case Struct:
		c := make(Struct, len(v))
		for i, f := range v {
			c[i] = copyVal(f)
		}
		return c
	case Array:
		c := make(Array, len(v))
		for i, f := range v {
			c[i] = copyVal(f)
		}
		return c
	}
	return v
}

// storeInto writes v into the cell preserving the identity of nested cells.
func storeInto(addr *Value, v Value) {
	switch v := v.(type) {
	case Struct:
		lhs, ok := (*addr).(Struct)
		if !ok || len(lhs) != len(v) {
			*addr = copyVal(v)
			return
		}
		for i := range lhs {
			storeInto(&lhs[i], v[i])
		}
	case Array:
		lhs, ok := (*addr).(Array)
		if !ok || len(lhs) != len(v) {
			*addr = copyVal(v)
			return
		}
		for i := range lhs {
			storeInto(&lhs[i], v[i])
		}
	default:
		*addr = v
	}
}

func (in *Interp) constValue(c *ssa.Const) Value {
	if c.Value == nil {
		return in.zero(c.Type())
	}
	t := c.Type()
	if tp, ok := t.(*types.TypeParam); ok {
		_ = tp
		in.unsupported("constant of type parameter type")
	}
	b, ok := t.Underlying().(*types.Basic)
	if !ok {
		panic(fmt.Sprintf("constValue: %v of type %v", c, t))
	}
	if ty, ok := typOfBasic(b); ok {
		switch ty.K {
		case KBool:
			return in.tb.Bool(constant.BoolVal(c.Value))
		case KInt:
			if ty.S {
				return in.tb.Const(ty, uint64(c.Int64()))
			}
			return in.tb.Const(ty, c.Uint64())
		case KFloat:
			return in.tb.Const(ty, fbits(c.Float64(), ty))
		}
	}
	switch b.Kind() {
	case types.String, types.UntypedString:
		if c.Value.Kind() == constant.String {
			return Str{c: constant.StringVal(c.Value)}
		}
		return Str{c: string(rune(c.Int64()))}
	case types.Complex128, types.Complex64:
		in.unsupported("complex constant")
	}
	panic(fmt.Sprintf("constValue: %v", c))
}

// ---------------------------------------------------------------------------
// strings

func (s Str) Len() int {
	if s.b != nil {
		return len(s.b)
	}
	return len(s.c)
}

func (s Str) concrete() bool { return s.b == nil }

func (in *Interp) strAt(s Str, i int) *Term {
	if s.b != nil {
		return s.b[i]
	}
	return in.byteConst(s.c[i])
}

func (in *Interp) byteConst(b byte) *Term {
	return in.byteTab[b]
}

func (in *Interp) strBytes(s Str) []*Term {
	if s.b != nil {
		return s.b
	}
	r := make([]*Term, len(s.c))
	for i := 0; i < len(s.c); i++ {
		r[i] = in.byteTab[s.c[i]]
	}
	return r
}

// mkStr normalises: all-constant bytes become a concrete string.
func (in *Interp) mkStr(b []*Term) Str {
	allc := true
	for _, x := range b {
		if !x.IsConst() {
			allc = false
			break
		}
	}
	if allc {
		bs := make([]byte, len(b))
		for i, x := range b {
			bs[i] = byte(x.V)
		}
		return Str{c: string(bs)}
	}
	if len(b) == 0 {
		return Str{}
	}
	return Str{b: b}
}

func (in *Interp) strSlice(s Str, lo, hi int) Str {
	if s.b != nil {
		return in.mkStr(s.b[lo:hi])
	}
	return Str{c: s.c[lo:hi], opaque: s.opaque}
}

func (in *Interp) strConcat(a, b Str) Str {
	if a.opaque || b.opaque {
		ne := (a.opaque && a.ne) || (b.opaque && b.ne) || (!a.opaque && a.Len() > 0) || (!b.opaque && b.Len() > 0)
		return Str{c: a.c + b.c, opaque: true, ne: ne}
	}
	if a.b == nil && b.b == nil {
		return Str{c: a.c + b.c}
	}
	r := make([]*Term, 0, a.Len()+b.Len())
	r = append(r, in.strBytes(a)...)
	r = append(r, in.strBytes(b)...)
	return Str{b: r}
}

func (in *Interp) strEq(a, b Str) *Term {
	if a.opaque && a.ne && !b.opaque && b.Len() == 0 || b.opaque && b.ne && !a.opaque && a.Len() == 0 {
		return in.tb.False // formatted text with literal characters is not the empty string
	}
	if a.opaque || b.opaque {
		in.inconclusive("comparison on the content of an opaque (formatted) string")
	}
	if a.Len() != b.Len() {
		return in.tb.False
	}
	if a.b == nil && b.b == nil {
		return in.tb.Bool(a.c == b.c)
	}
	r := in.tb.True
	for i := a.Len() - 1; i >= 0; i-- {
		r = in.tb.BAnd(in.tb.Eq(in.strAt(a, i), in.strAt(b, i)), r)
	}
	return r
}

// bytesCmp returns a term of type int: -1, 0, +1 (lexicographic).
func (in *Interp) bytesCmp(a, b []*Term) *Term {
	tb := in.tb
	n := len(a)
	if len(b) < n {
		n = len(b)
	}
	var r *Term
	switch {
	case len(a) < len(b):
		r = tb.Int(TI64, -1)
	case len(a) > len(b):
		r = tb.Int(TI64, 1)
	default:
		r = tb.Int(TI64, 0)
	}
	for i := n - 1; i >= 0; i-- {
		r = tb.Ite(tb.Lt(a[i], b[i]), tb.Int(TI64, -1), tb.Ite(tb.Lt(b[i], a[i]), tb.Int(TI64, 1), r))
	}
	return r
}

func (in *Interp) strLt(a, b Str) *Term {
	if a.opaque || b.opaque {
		in.inconclusive("comparison on the content of an opaque (formatted) string")
	}
	if a.b == nil && b.b == nil {
		return in.tb.Bool(a.c < b.c)
	}
	c := in.bytesCmp(in.strBytes(a), in.strBytes(b))
	return in.tb.Lt(c, in.tb.Int(TI64, 0))
}

func (s Str) String() string {
	if s.b == nil {
		return fmt.Sprintf("%q", s.c)
	}
	var sb strings.Builder
	sb.WriteString("str[")
	for i, x := range s.b {
		if i > 0 {
			sb.WriteByte(' ')
		}
		sb.WriteString(x.String())
	}
	sb.WriteString("]")
	return sb.String()
}

// ---------------------------------------------------------------------------
// maps

func (in *Interp) newMap(kt types.Type) *Map {
	return &Map{kt: kt, idx: map[string]*mapEntry{}}
}

// canonKey gives a canonical string for a fully concrete key.
func canonKey(v Value, sb *strings.Builder) bool {
	switch v := v.(type) {
	case *Term:
		if !v.IsConst() {
			return false
		}
		fmt.Fprintf(sb, "%d:%d;", v.T.W, v.V)
		return true
	case Str:
		if v.b != nil || v.opaque {
			return false
		}
		fmt.Fprintf(sb, "s%d:%s;", len(v.c), v.c)
		return true
	case Struct:
		sb.WriteByte('{')
		for _, f := range v {
			if !canonKey(f, sb) {
				return false
			}
		}
		sb.WriteByte('}')
		return true
	case Array:
		sb.WriteByte('[')
		for _, f := range v {
			if !canonKey(f, sb) {
				return false
			}
		}
		sb.WriteByte(']')
		return true
	case Ptr:
		if v.idx != nil {
			return false
		}
		fmt.Fprintf(sb, "p%p;", v.cell)
		return true
	case Iface:
		if v.t == nil {
			sb.WriteString("nil;")
			return true
		}
		sb.WriteString(v.t.String())
		sb.WriteByte('=')
		return canonKey(v.v, sb)
	case *Chan:
		fmt.Fprintf(sb, "c%p;", v)
		return true
	}
	return false
}

func (in *Interp) mapFind(m *Map, k Value) *mapEntry {
	if m == nil {
		return nil
	}
	var sb strings.Builder
	if canonKey(k, &sb) {
		ck := sb.String()
		if e, ok := m.idx[ck]; ok {
			return e
		}
		// compare against symbolic keys only
		for _, e := range m.entries {
			if e.dead || e.hasCK {
				continue
			}
			if in.decide(in.valuesEqual(m.kt, e.key, k)) {
				return e
			}
		}
		return nil
	}
	for _, e := range m.entries {
		if e.dead {
			continue
		}
		if in.decide(in.valuesEqual(m.kt, e.key, k)) {
			return e
		}
	}
	return nil
}

func (in *Interp) mapSet(m *Map, k, v Value) {
	if m == nil {
		in.goPanic("assignment to entry in nil map")
	}
	if e := in.mapFind(m, k); e != nil {
		e.val = v
		return
	}
	e := &mapEntry{key: k, val: v}
	var sb strings.Builder
	if canonKey(k, &sb) {
		e.ck, e.hasCK = sb.String(), true
		m.idx[e.ck] = e
	}
	m.entries = append(m.entries, e)
	m.n++
}

func (in *Interp) mapDelete(m *Map, k Value) {
	if m == nil {
		return
	}
	if e := in.mapFind(m, k); e != nil {
		e.dead = true
		if e.hasCK {
			delete(m.idx, e.ck)
		}
		m.n--
	}
}

func (it *mapIter) next(in *Interp) Tuple {
	if it.m != nil {
		for it.pos < len(it.m.entries) {
			e := it.m.entries[it.pos]
			it.pos++
			if !e.dead {
				return Tuple{in.tb.True, e.key, copyVal(e.val)}
			}
		}
	}
	return Tuple{in.tb.False, nil, nil}
}

// ---------------------------------------------------------------------------
// equality

// valuesEqual builds the term for Go's == on values of static type t.
func (in *Interp) valuesEqual(t types.Type, a, b Value) *Term {
	tb := in.tb
	switch x := a.(type) {
	case *Term:
		y := b.(*Term)
		if x.T != y.T {
			if x.T.K == KInt && y.T.K == KInt && x.T.W == y.T.W {
				y = tb.Conv(y, x.T)
			} else {
				panic(fmt.Sprintf("valuesEqual: %v vs %v", x.T, y.T))
			}
		}
		return tb.Eq(x, y)
	case Str:
		return in.strEq(x, b.(Str))
	case Ptr:
		y := b.(Ptr)
		if x.idx != nil || y.idx != nil {
			x = in.concretePtr(x)
			y = in.concretePtr(y)
		}
		return tb.Bool(x.cell == y.cell)
	case Struct:
		y := b.(Struct)
		st := t.Underlying().(*types.Struct)
		r := tb.True
		for i := range x {
			if st.Field(i).Name() == "_" {
				continue
			}
			r = tb.BAnd(r, in.valuesEqual(st.Field(i).Type(), x[i], y[i]))
		}
		return r
	case Array:
		y := b.(Array)
		et := t.Underlying().(*types.Array).Elem()
		r := tb.True
		for i := range x {
			r = tb.BAnd(r, in.valuesEqual(et, x[i], y[i]))
		}
		return r
	case Iface:
		y, ok := b.(Iface)
		if !ok {
			panic(fmt.Sprintf("valuesEqual: iface vs %T", b))
		}
		if x.t == nil || y.t == nil {
			return tb.Bool(x.t == nil && y.t == nil)
		}
		if !types.Identical(x.t, y.t) {
			return tb.False
		}
		if !types.Comparable(x.t) {
			in.goPanic("runtime error: comparing uncomparable type " + x.t.String())
		}
		return in.valuesEqual(x.t, x.v, y.v)
	case *Map:
		// only comparison with nil is legal
		y := b.(*Map)
		return tb.Bool(x == nil && y == nil || x == y)
	case *Chan:
		return tb.Bool(x == b.(*Chan))
	case Slice:
		y := b.(Slice)
		return tb.Bool(x.a == nil && y.a == nil)
	case *ssa.Function:
		switch y := b.(type) {
		case *ssa.Function:
			return tb.Bool(x == y)
		default:
			return tb.Bool(false)
		}
	case *Closure:
		if y, ok := b.(*ssa.Function); ok && y == nil {
			return tb.False
		}
		if y, ok := b.(*Closure); ok {
			return tb.Bool(x == y)
		}
		return tb.False
	case *NativeFn:
		if y, ok := b.(*NativeFn); ok {
			return tb.Bool(x == y)
		}
		return tb.False
	case *ssa.Builtin:
		return tb.False
	}
	panic(fmt.Sprintf("valuesEqual: unhandled %T (%v)", a, t))
}

// hasSymbolic reports whether v (deeply, not through pointers) contains a non-constant term.
func hasSymbolic(v Value, depth int) bool {
	if depth > 6 {
		return false
	}
	switch v := v.(type) {
	case *Term:
		return !v.IsConst()
	case Str:
		return v.b != nil || v.opaque
	case Struct:
		for _, f := range v {
			if hasSymbolic(f, depth+1) {
				return true
			}
		}
	case Array:
		for _, f := range v {
			if hasSymbolic(f, depth+1) {
				return true
			}
		}
	case Slice:
		for _, f := range v.a {
			if hasSymbolic(f, depth+1) {
				return true
			}
		}
	case Iface:
		return hasSymbolic(v.v, depth+1)
	case Ptr:
		if v.idx != nil {
			return true
		}
		if v.cell != nil {
			return hasSymbolic(*v.cell, depth+1)
		}
	case Tuple:
		for _, f := range v {
			if hasSymbolic(f, depth+1) {
				return true
			}
		}
	}
	return false
}
