package main

// Minimal reflect support: reflect.TypeOf(x) yields a native object answering the
// constant-foldable questions (Bits, Kind, Size, String, Name); nothing else of reflect is modelled.

import (
	"go/types"

	"golang.org/x/tools/go/ssa"
)

type nativeObj struct {
	kind string
	t    types.Type
}

var reflectKinds = map[types.BasicKind]int64{
	types.Bool: 1, types.Int: 2, types.Int8: 3, types.Int16: 4, types.Int32: 5, types.Int64: 6,
	types.Uint: 7, types.Uint8: 8, types.Uint16: 9, types.Uint32: 10, types.Uint64: 11, types.Uintptr: 12,
	types.Float32: 13, types.Float64: 14, types.Complex64: 15, types.Complex128: 16, types.String: 24, types.UnsafePointer: 26,
}

func (o *nativeObj) method(in *Interp, name string) *NativeFn {
	return &NativeFn{name: "reflect.Type." + name, f: func(in *Interp, args []Value) Value {
		switch name {
		case "Bits":
			if ty, ok := scalarTyp(o.t); ok && ty.K != KBool {
				return in.tb.Int(TI64, int64(ty.W))
			}
			in.goPanic("reflect: Bits of non-arithmetic Type " + o.t.String())
		case "Size":
			if ty, ok := scalarTyp(o.t); ok {
				return in.tb.Const(TU64, uint64(ty.W+7)/8)
			}
		case "String":
			return Str{c: types.TypeString(o.t, func(p *types.Package) string { return p.Name() })}
		case "Name":
			if n, ok := o.t.(*types.Named); ok {
				return Str{c: n.Obj().Name()}
			}
			if b, ok := o.t.(*types.Basic); ok {
				return Str{c: b.Name()}
			}
			return Str{}
		case "Kind":
			if b, ok := o.t.Underlying().(*types.Basic); ok {
				return in.tb.Const(TU64, uint64(reflectKinds[b.Kind()]))
			}
			switch o.t.Underlying().(type) {
			case *types.Array:
				return in.tb.Const(TU64, 17)
			case *types.Chan:
				return in.tb.Const(TU64, 18)
			case *types.Signature:
				return in.tb.Const(TU64, 19)
			case *types.Interface:
				return in.tb.Const(TU64, 20)
			case *types.Map:
				return in.tb.Const(TU64, 21)
			case *types.Pointer:
				return in.tb.Const(TU64, 22)
			case *types.Slice:
				return in.tb.Const(TU64, 23)
			case *types.Struct:
				return in.tb.Const(TU64, 25)
			}
		}
		in.unsupported("reflect.Type.%s", name)
		return nil
	}}
}

func init() {
	reg("reflect.TypeOf", func(in *Interp, caller *frame, fn *ssa.Function, a []Value) (Value, bool) {
		x := a[0].(Iface)
		if x.t == nil {
			return Iface{}, true
		}
		rp := in.prog.ImportedPackage("reflect")
		var rt types.Type = types.Typ[types.UnsafePointer]
		if rp != nil && rp.Type("rtype") != nil {
			rt = types.NewPointer(rp.Type("rtype").Type())
		}
		return Iface{t: rt, v: &nativeObj{"rtype", x.t}}, true
	})
}

// context.WithValue without its reflectlite comparability check (keys are comparable in practice):
// builds the *context.valueCtx directly; Value lookups then run as real code.
func init() {
	regSimple("context.WithValue", func(in *Interp, a []Value) Value {
		cp := in.prog.ImportedPackage("context")
		vt := cp.Type("valueCtx").Type()
		st := vt.Underlying().(*types.Struct)
		val := in.zero(vt).(Struct)
		for i := 0; i < st.NumFields(); i++ {
			switch st.Field(i).Name() {
			case "Context":
				val[i] = a[0]
			case "key":
				val[i] = a[1]
			case "val":
				val[i] = a[2]
			}
		}
		cell := new(Value)
		*cell = val
		return Iface{t: types.NewPointer(vt), v: Ptr{cell: cell}}
	})
}
