// Package zzverifrt is the harness runtime of /verif. It is injected through
// build overlays only (never written under /repo). Under symgo every function
// here is intercepted by name; the bodies below are the native semantics used
// when a counterexample is replayed against the compiled code: values come from
// the JSON assignment named by $VERIF_REPLAY.
package zzverifrt

import (
	"encoding/json"
	"fmt"
	"math"
	"os"
	"strconv"
	"strings"
)

type replayFile struct {
	Entry   string            `json:"entry"`
	Model   map[string]string `json:"model"`
	Choices map[string]int64  `json:"choices"`
	Bounds  map[string]int    `json:"bounds"`
}

var rf *replayFile

func load() *replayFile {
	if rf != nil {
		return rf
	}
	rf = &replayFile{}
	p := os.Getenv("VERIF_REPLAY")
	if p == "" {
		return rf
	}
	b, err := os.ReadFile(p)
	if err != nil {
		panic("zzverifrt: " + err.Error())
	}
	if err := json.Unmarshal(b, rf); err != nil {
		panic("zzverifrt: " + err.Error())
	}
	return rf
}

func raw(name string) uint64 {
	s, ok := load().Model[name]
	if !ok {
		return 0
	}
	v, err := strconv.ParseUint(s, 10, 64)
	if err != nil {
		panic("zzverifrt: bad value for " + name + ": " + s)
	}
	return v
}

func Int64(name string) int64     { return int64(raw(name)) }
func Int(name string) int         { return int(int64(raw(name))) }
func Uint64(name string) uint64   { return raw(name) }
func Uint(name string) uint       { return uint(raw(name)) }
func Int32(name string) int32     { return int32(raw(name)) }
func Uint32(name string) uint32   { return uint32(raw(name)) }
func Int16(name string) int16     { return int16(raw(name)) }
func Uint16(name string) uint16   { return uint16(raw(name)) }
func Int8(name string) int8       { return int8(raw(name)) }
func Uint8(name string) uint8     { return uint8(raw(name)) }
func Byte(name string) byte       { return byte(raw(name)) }
func Bool(name string) bool       { return raw(name) != 0 }
func Float64(name string) float64 { return math.Float64frombits(raw(name)) }
func Float32(name string) float32 { return math.Float32frombits(uint32(raw(name))) }

func Bytes(name string, n int) []byte {
	b := make([]byte, n)
	for i := range b {
		b[i] = byte(raw(fmt.Sprintf("%s[%d]", name, i)))
	}
	return b
}

func String(name string, n int) string { return string(Bytes(name, n)) }

func Choose(name string, lo, hi int) int {
	v, ok := load().Choices[name]
	if !ok {
		return lo
	}
	return int(v)
}

func Bound(name string, def int) int {
	if v, ok := load().Bounds[name]; ok {
		return v
	}
	return def
}

// Stop is the panic value used to end a native replay.
type Stop struct {
	Kind  string // "assert-fail", "assume-fail"
	Label string
}

func Assume(b bool) {
	if !b {
		panic(Stop{"assume-fail", ""})
	}
}

func Assert(b bool, label string) {
	if !b {
		panic(Stop{"assert-fail", label})
	}
}

func Reach(label string) {}

func Symbolic() bool { return false }

func And(bs ...bool) bool {
	r := true
	for _, b := range bs {
		r = r && b
	}
	return r
}

func Or(bs ...bool) bool {
	r := false
	for _, b := range bs {
		r = r || b
	}
	return r
}

func Not(b bool) bool        { return !b }
func Implies(a, b bool) bool { return !a || b }
func Iff(a, b bool) bool     { return a == b }

func All(n int, f func(i int) bool) bool {
	r := true
	for i := 0; i < n; i++ {
		if !f(i) {
			r = false
		}
	}
	return r
}

func Any(n int, f func(i int) bool) bool {
	r := false
	for i := 0; i < n; i++ {
		if f(i) {
			r = true
		}
	}
	return r
}

func Ite[T any](c bool, a, b T) T {
	if c {
		return a
	}
	return b
}

func N(prefix string, idx ...int) string {
	var sb strings.Builder
	sb.WriteString(prefix)
	for _, i := range idx {
		sb.WriteString("_")
		sb.WriteString(strconv.Itoa(i))
	}
	return sb.String()
}

func Concrete(x int) int { return x }

func Panics(f func()) (p bool) {
	defer func() {
		if r := recover(); r != nil {
			if s, ok := r.(Stop); ok {
				panic(s)
			}
			p = true
		}
	}()
	f()
	return false
}

var fsRoot string

// FSRoot is the directory harnesses keep their files under: a fresh temporary directory in a native
// run (removed when the replay ends), "/memfs" of the in-memory file system under symgo.
func FSRoot() string {
	if fsRoot == "" {
		d, err := os.MkdirTemp("", "verif-fs-")
		if err != nil {
			panic("zzverifrt: " + err.Error())
		}
		fsRoot = d
	}
	return fsRoot
}

// RunReplay runs the entry named in the replay file and prints one result line:
//   VERIF-RESULT ok | assert-fail <label> | assume-fail | panic <message>
func RunReplay(entries map[string]func()) {
	r := load()
	f, ok := entries[r.Entry]
	if !ok {
		fmt.Printf("VERIF-RESULT error unknown entry %q\n", r.Entry)
		return
	}
	defer func() {
		if fsRoot != "" {
			os.RemoveAll(fsRoot)
		}
	}()
	defer func() {
		if x := recover(); x != nil {
			if s, ok := x.(Stop); ok {
				fmt.Printf("VERIF-RESULT %s %s\n", s.Kind, s.Label)
				return
			}
			fmt.Printf("VERIF-RESULT panic %v\n", x)
		}
	}()
	f()
	fmt.Printf("VERIF-RESULT ok\n")
}
