// Package zzverifrt is the harness runtime of /verif. It is injected through
// build overlays only (never written under /repo). Under symgo every function
// here is intercepted by name; the bodies below are the native semantics used
// when a counterexample is replayed against the compiled code: values come from
// the JSON assignment named by $VERIF_REPLAY.
package zzverifrt

import (
	"encoding/json"
	"fmt"
	"math"
	"os"
	"runtime"
	"strconv"
	"strings"
	"sync"
)

type replayFile struct {
	Entry   string            `json:"entry"`
	Model   map[string]string `json:"model"`
	Choices map[string]int64  `json:"choices"`
	Bounds  map[string]int    `json:"bounds"`
}

var rf *replayFile

func load() *replayFile {
	if rf != nil {
		return rf
	}
	rf = &replayFile{}
	p := os.Getenv("VERIF_REPLAY")
	if p == "" {
		return rf
	}
	b, err := os.ReadFile(p)
	if err != nil {
		panic("zzverifrt: " + err.Error())
	}
	if err := json.Unmarshal(b, rf); err != nil {
		panic("zzverifrt: " + err.Error())
	}
	return rf
}

func raw(name string) uint64 {
	s, ok := load().Model[name]
	if !ok {
		return 0
	}
	v, err := strconv.ParseUint(s, 10, 64)
	if err != nil {
		panic("zzverifrt: bad value for " + name + ": " + s)
	}
	return v
}

func Int64(name string) int64     { return int64(raw(name)) }
func Int(name string) int         { return int(int64(raw(name))) }
func Uint64(name string) uint64   { return raw(name) }
func Uint(name string) uint       { return uint(raw(name)) }
func Int32(name string) int32     { return int32(raw(name)) }
func Uint32(name string) uint32   { return uint32(raw(name)) }
func Int16(name string) int16     { return int16(raw(name)) }
func Uint16(name string) uint16   { return uint16(raw(name)) }
func Int8(name string) int8       { return int8(raw(name)) }
func Uint8(name string) uint8     { return uint8(raw(name)) }
func Byte(name string) byte       { return byte(raw(name)) }
func Bool(name string) bool       { return raw(name) != 0 }
func Float64(name string) float64 { return math.Float64frombits(raw(name)) }
func Float32(name string) float32 { return math.Float32frombits(uint32(raw(name))) }

func Bytes(name string, n int) []byte {
	b := make([]byte, n)
	for i := range b {
		b[i] = byte(raw(fmt.Sprintf("%s[%d]", name, i)))
	}
	return b
}

func String(name string, n int) string { return string(Bytes(name, n)) }

func Choose(name string, lo, hi int) int {
	v, ok := load().Choices[name]
	if !ok {
		return lo
	}
	return int(v)
}

func Bound(name string, def int) int {
	if v, ok := load().Bounds[name]; ok {
		return v
	}
	return def
}

// Stop is the panic value used to end a native replay.
type Stop struct {
	Kind  string // "assert-fail", "assume-fail"
	Label string
}

func Assume(b bool) {
	if !b {
		panic(Stop{"assume-fail", ""})
	}
}

func Assert(b bool, label string) {
	if !b {
		panic(Stop{"assert-fail", label})
	}
}

func Reach(label string) {}

func Symbolic() bool { return false }

func And(bs ...bool) bool {
	r := true
	for _, b := range bs {
		r = r && b
	}
	return r
}

func Or(bs ...bool) bool {
	r := false
	for _, b := range bs {
		r = r || b
	}
	return r
}

func Not(b bool) bool        { return !b }
func Implies(a, b bool) bool { return !a || b }
func Iff(a, b bool) bool     { return a == b }

func All(n int, f func(i int) bool) bool {
	r := true
	for i := 0; i < n; i++ {
		if !f(i) {
			r = false
		}
	}
	return r
}

func Any(n int, f func(i int) bool) bool {
	r := false
	for i := 0; i < n; i++ {
		if f(i) {
			r = true
		}
	}
	return r
}

func Ite[T any](c bool, a, b T) T {
	if c {
		return a
	}
	return b
}

func N(prefix string, idx ...int) string {
	var sb strings.Builder
	sb.WriteString(prefix)
	for _, i := range idx {
		sb.WriteString("_")
		sb.WriteString(strconv.Itoa(i))
	}
	return sb.String()
}

func Concrete(x int) int { return x }

func Panics(f func()) (p bool) {
	defer func() {
		if r := recover(); r != nil {
			if s, ok := r.(Stop); ok {
				panic(s)
			}
			p = true
		}
	}()
	f()
	return false
}

var fsRoot string

// FSRoot is the directory harnesses keep their files under: a fresh temporary directory in a native
// run (removed when the replay ends), "/memfs" of the in-memory file system under symgo.
func FSRoot() string {
	if fsRoot == "" {
		d, err := os.MkdirTemp("", "verif-fs-")
		if err != nil {
			panic("zzverifrt: " + err.Error())
		}
		fsRoot = d
	}
	return fsRoot
}

// RunReplay runs the entry named in the replay file and prints one result line:
//
//	VERIF-RESULT ok | assert-fail <label> | assume-fail | panic <message>
func RunReplay(entries map[string]func()) {
	r := load()
	f, ok := entries[r.Entry]
	if !ok {
		fmt.Printf("VERIF-RESULT error unknown entry %q\n", r.Entry)
		return
	}
	defer func() {
		if fsRoot != "" {
			os.RemoveAll(fsRoot)
		}
	}()
	defer func() {
		if x := recover(); x != nil {
			if s, ok := x.(Stop); ok {
				fmt.Printf("VERIF-RESULT %s %s\n", s.Kind, s.Label)
				return
			}
			fmt.Printf("VERIF-RESULT panic %v\n", x)
		}
	}()
	f()
	fmt.Printf("VERIF-RESULT ok\n")
}

// ---- cooperative scheduler (native re-enactment of a schedule found by symgo, see symgo/sched.go)
//
// Goroutines started with Go run one at a time, passing a baton; the mutex and atomic operations of the
// scheduled packages reach this file through the replay build's source rewrite (X.Lock() becomes
// SchedLock(X.TryLock), ...). The schedule is read from the replay file: decision sched_<n> says which
// goroutine runs after the n-th decision point; a missing decision means "go on" / "lowest id".

var schedTrace = os.Getenv("VERIF_SCHEDTRACE") != ""

type nthread struct {
	id     int
	resume chan struct{}
	done   bool
	ready  func() bool
}

var ns struct {
	threads    []*nthread
	cur        *nthread
	n          int
	preempts   int
	maxPreempt int
	picks      int
	maxPicks   int
	fatal      any
}

// goroutines under the scheduler, by runtime goroutine id; any other goroutine (started by a plain go
// statement of the code under test) runs unscheduled
var (
	nsMu sync.Mutex
	nsG  = map[uint64]bool{}
)

func goid() uint64 {
	var buf [64]byte
	n := runtime.Stack(buf[:], false)
	f := strings.Fields(string(buf[:n])) // "goroutine 123 [running]:"
	if len(f) < 2 {
		return 0
	}
	id, _ := strconv.ParseUint(f[1], 10, 64)
	return id
}

func scheduled() bool {
	if ns.threads == nil {
		return false
	}
	nsMu.Lock()
	defer nsMu.Unlock()
	return nsG[goid()]
}

func register() {
	nsMu.Lock()
	nsG[goid()] = true
	nsMu.Unlock()
}

func nsInit() {
	if ns.threads == nil {
		m := &nthread{id: 0, resume: make(chan struct{})}
		ns.threads = []*nthread{m}
		ns.cur = m
		register()
		ns.maxPreempt = Bound("PREEMPT", 1)
		ns.maxPicks = Bound("PICKS", 4)
	}
}

func nsOthers() []*nthread {
	var r []*nthread
	for _, t := range ns.threads {
		if t != ns.cur && !t.done && (t.ready == nil || t.ready()) {
			r = append(r, t)
		}
	}
	return r
}

func nsPick() *nthread {
	o := nsOthers()
	if len(o) == 0 {
		return nil
	}
	if len(o) == 1 || ns.picks >= ns.maxPicks {
		return o[0]
	}
	ns.picks++
	ns.n++
	v := Choose(fmt.Sprintf("sched_%d", ns.n), 0, len(o)-1)
	if schedTrace {
		fmt.Fprintf(os.Stderr, "SCHED pick #%d by g%d: %d candidates -> %d\n", ns.n, ns.cur.id, len(o), v)
	}
	if v < 0 || v >= len(o) {
		panic(Stop{"schedule-mismatch", "pick out of range"})
	}
	return o[v]
}

func nsSwitch(next *nthread) {
	me := ns.cur
	if next == me {
		return
	}
	ns.cur = next
	next.resume <- struct{}{}
	<-me.resume
	if ns.fatal != nil && me.id == 0 {
		f := ns.fatal
		ns.fatal = nil
		panic(f)
	}
}

// Go starts f as a scheduled goroutine.
func Go(f func()) {
	nsInit()
	t := &nthread{id: len(ns.threads), resume: make(chan struct{})}
	ns.threads = append(ns.threads, t)
	go func() {
		register()
		<-t.resume
		var next *nthread
		r := func() (r any) {
			defer func() { r = recover() }()
			f()
			t.done = true
			next = nsPick()
			return nil
		}()
		t.done = true
		if r != nil {
			ns.fatal = r
			next = ns.threads[0]
		} else if next == nil {
			ns.fatal = Stop{"blocked", "all goroutines blocked"}
			next = ns.threads[0]
		}
		ns.cur = next
		next.resume <- struct{}{}
	}()
	SchedPoint()
}

// SchedPoint: the running goroutine may be pre-empted here.
func SchedPoint() {
	if !scheduled() || ns.preempts >= ns.maxPreempt {
		return
	}
	o := nsOthers()
	if len(o) == 0 {
		return
	}
	ns.n++
	v := Choose(fmt.Sprintf("sched_%d", ns.n), 0, len(o))
	if schedTrace {
		_, f1, l1, _ := runtime.Caller(1)
		_, f2, l2, _ := runtime.Caller(2)
		fmt.Fprintf(os.Stderr, "SCHED point #%d in g%d at %s:%d < %s:%d: %d others -> %d\n", ns.n, ns.cur.id, f1, l1, f2, l2, len(o), v)
	}
	if v > 0 {
		if v > len(o) {
			panic(Stop{"schedule-mismatch", "switch out of range"})
		}
		ns.preempts++
		nsSwitch(o[v-1])
	}
}

func nsBlock(ready func() bool) {
	if !scheduled() {
		for !ready() {
			runtime.Gosched()
		}
		return
	}
	me := ns.cur
	for !ready() {
		me.ready = ready
		next := nsPick()
		if next == nil {
			me.ready = nil
			if me.id == 0 {
				panic(Stop{"blocked", "all goroutines blocked"})
			}
			ns.fatal = Stop{"blocked", "all goroutines blocked"}
			next = ns.threads[0]
		}
		nsSwitch(next)
		me.ready = nil
	}
}

// Join waits for every goroutine started with Go.
func Join() {
	if !scheduled() {
		return
	}
	me := ns.cur
	nsBlock(func() bool {
		for _, t := range ns.threads {
			if t != me && !t.done {
				return false
			}
		}
		return true
	})
}

// SchedLock replaces X.Lock() / X.RLock(): try is X.TryLock / X.TryRLock, unlock the matching release.
// Whether the goroutine can go on is tested without keeping the lock (other goroutines evaluate the
// test too); the lock is taken once the goroutine has the baton.
func SchedLock(try func() bool, unlock func()) {
	if !scheduled() {
		for !try() {
			runtime.Gosched()
		}
		return
	}
	SchedPoint()
	nsBlock(func() bool {
		if try() {
			unlock()
			return true
		}
		return false
	})
	if !try() {
		panic(Stop{"schedule-mismatch", "lock not free after wake-up"})
	}
}

// SchedUnlock replaces X.Unlock() / X.RUnlock().
func SchedUnlock(unlock func()) {
	unlock()
	SchedPoint()
}

// SchedFn / SchedRecv: a schedule point taken while the function value (atomic.F) or the receiver (typed
// atomics, sync.Map) of a call is evaluated, i.e. before the operation.
func SchedFn[F any](f F) F {
	SchedPoint()
	return f
}

func SchedRecv[T any](x T) T {
	SchedPoint()
	return x
}

// ---- sync.Cond and sync.Locker under the cooperative scheduler

type tryLocker interface {
	TryLock() bool
	Unlock()
}

// SchedLockL / SchedUnlockL replace X.Lock() / X.Unlock() on a sync.Locker (a Cond's L).
func SchedLockL(l sync.Locker) {
	if t, ok := l.(tryLocker); ok {
		SchedLock(t.TryLock, t.Unlock)
		return
	}
	l.Lock()
}

func SchedUnlockL(l sync.Locker) { SchedUnlock(l.Unlock) }

var condGen = map[*sync.Cond]uint64{}

func condGeneration(c *sync.Cond) uint64 {
	nsMu.Lock()
	defer nsMu.Unlock()
	return condGen[c]
}

// SchedCondWait replaces c.Wait(): release L, park until a Broadcast/Signal came, take L again.
func SchedCondWait(c *sync.Cond) {
	if !scheduled() {
		c.Wait()
		return
	}
	SchedPoint()
	g := condGeneration(c)
	c.L.Unlock()
	nsBlock(func() bool { return condGeneration(c) != g })
	t, ok := c.L.(tryLocker)
	if !ok {
		c.L.Lock()
		return
	}
	nsBlock(func() bool {
		if t.TryLock() {
			t.Unlock()
			return true
		}
		return false
	})
	if !t.TryLock() {
		panic(Stop{"schedule-mismatch", "cond lock not free after wake-up"})
	}
}

// SchedCondBroadcast replaces c.Broadcast() and c.Signal().
func SchedCondBroadcast(c *sync.Cond) {
	nsMu.Lock()
	condGen[c]++
	nsMu.Unlock()
	c.Broadcast()
	SchedPoint()
}
