#!/usr/bin/env python3
# Regenerates /verif/MANIFEST.json from the harness specs present and the table below.
import json, os
V='/verif'
props=[json.loads(l) for l in open(V+'/properties.jsonl')]
NA={
 'C13':"series file: keys and ids are concrete data moved through mmap'd segment files and an on-disk robin-hood hash index keyed by xxhash of the key; the property is about create/delete/compact/reopen histories whose steps carry no symbolic data, so a run through the symbolic executor would be an enumeration of concrete runs in a slow interpreter, not a solver verdict; the segment entry and key codecs alone do not decide any clause of the property",
 'C14':"tsi1 correctness lives in mmap'd index/log files with CRC32-checked entries, bloom filters and background compaction; CRC over symbolic bytes is out of reach of the solvers here and the file-set machinery cannot be driven without real files and goroutines",
 'C22':"quantifies over programs (InfluxQL queries) executed by the whole query engine against a reference evaluator: a whole-program differential run, not a bounded kernel a solver can decide",
 'C30':"tenant services are thin layers over the kv store with encoding/json (reflection) on every record; uniqueness is a property of histories through bolt/inmem indexes; no encodable kernel remains once kv and json are stubbed",
 'C38':"backup/restore is tar streaming, hard links, directory walks and file replacement: environment behaviour, not a function of symbolic data",
 'C39':"absence of data races is outside any schedule exploration that switches at synchronisation operations only (symgo/sched.go interleaves harness goroutines at mutex/atomic/sync.Map operations; a data race is exactly what is invisible there), and the operations the property names (compactions, backups, shard close, purger) run on the engine's own goroutines, tickers and real files, which that scheduler does not interleave; the cache- and field-level parts that are reachable are claimed under C09 and C10",
 'C41':"Flux table construction over Arrow builders/allocators and the flux execute package (cgo/libflux dependent); window clipping is interleaved with buffer management that cannot be separated into a pure kernel",
 'C42':"store-level merge of per-shard tsi1 results with authorizers; depends on C14's machinery",
 'C43':"DBRP service is kv + encoding/json + index buckets; the default-mapping bookkeeping is expressed through store transactions, so the pre-state cannot be made symbolic without replacing the code under test",
}
PENDING="harness not built yet in this session (planned, see DESIGN.md section 6); not claimed until its check runs clean on the unchanged tree"
claimed=[]
for p in props:
    sp=os.path.join(V,'harness',p['id'],'spec.json')
    if os.path.exists(sp) and p['id'] not in NA:
        claimed.append(p['id'])
man={
 "version":1,
 "setup_cmd":"make -C /verif -s setup",
 "hooks":{"guard":"verif","enable":"go/packages and `go test -c` are run with -tags=verif,purego; harnesses, the runtime package internal/zzverifrt and native stub rewrites come in through build overlays; no hook source exists in /repo","baseline_off_cmd":"cd /repo && go test -mod=mod -json -vet=off -count=1 -timeout 25m ./...","source_commits":[],"add_only":True},
 "engines":[{"name":"symgo","path":"/verif/symgo","serves_properties":claimed,"kind_free_text":"symbolic executor for Go SSA (go/ssa of /repo's working tree, rebuilt on every run) emitting SMT-LIB2 (bit-vector or integer encoding) for z3 4.8.12 / z3 5.1.0; path-at-a-time, every symbolic branch and every assertion decided by the solver; goroutine schedules of opt-in units are decisions of the same execution (symgo/sched.go); counterexamples — inputs and, where applicable, the schedule — replayed against the natively compiled code before being reported"}],
 "checks":[], "not_applicable":[],
 "notes":"See DESIGN.md. Every claimed check is decided by SMT queries over a symbolic execution of the real functions, for all inputs within the bounds written in its evidence file; unknown/timeouts are reported as INCONCLUSIVE, never as success. Fixes of genuine defects are recorded in known_findings.txt."
}
for p in props:
    pid=p['id']
    if pid in claimed:
        spec=json.load(open(os.path.join(V,'harness',pid,'spec.json')))
        man['checks'].append({
          "property_id":pid,
          "quick_cmd":"/verif/check %s quick"%pid,
          "thorough_cmd":"/verif/check %s thorough"%pid,
          "evidence_file":"/verif/evidence/%s.json"%pid,
          "replay_cmd_template":"/verif/check --replay {path}",
          "engine":"symgo",
          "level_claimed":{"category":"model_checking","text":"bounded symbolic model checking of the real code: every input within the stated bounds is covered by solver verdicts (unsat on every path); outside the claim: "+spec.get('outside',''),"design_ref":"DESIGN.md section 6, "+pid},
          "level_note":"trusted: go/ssa construction, the symgo interpreter, the SMT solver(s), the stubs and reference models in /verif/harness/%s; assumptions: %s"%(pid,'; '.join(spec.get('assumptions',[])) or 'none beyond the bounds'),
          "technique":("goroutine schedules are decisions of the same symbolic execution for the Conc*/Racing*/Concurrent* entries (every schedule with at most PREEMPT pre-emptions at mutex/atomic/sync.Map operations, re-enacted on the compiled code through a type-directed rewrite of those operations); " if any(u.get('sched') for u in spec['units']) else "")+"solver-based bounded symbolic execution of the real Go code (go/ssa -> SMT-LIB2, z3): data (timestamps, values, ids, ranges, types, payload bytes) is symbolic and every branch and assertion over it is decided by the solver; discrete choices of a harness (operation kinds, schedule and crash positions, small sizes) are explored exhaustively as forks of that execution; counterexamples are replayed against the natively compiled code"
        })
    else:
        man['not_applicable'].append({"property_id":pid,"reason":NA.get(pid,PENDING)})
json.dump(man,open(V+'/MANIFEST.json','w'),indent=1)
print("claimed:",' '.join(claimed))
