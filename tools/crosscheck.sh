#!/bin/bash
# Solver cross-check: re-runs the quick tier of the given checks with z3 4.8.12 and cvc5 instead of the
# default z3 5.1.0 and compares path/assertion verdict counts. Outputs go to /tmp/verif-alt (not evidence).
ids=${@:-C07 C11 C12 C16 C20 C23 C28 C31 C34 C36 C37}
out=/verif/.cache/crosscheck.log
: > $out
for id in $ids; do
  base=$(/verif/check $id quick 2>&1 | grep '^--' | sed 's/solver(.*//' | sed 's/wall=.*//')
  for s in z3 cvc5; do
    alt=$(VERIF_REPO=/repo VERIF_SOLVER=$s /verif/check $id quick 2>&1 | grep '^--' | sed 's/solver(.*//' | sed 's/wall=.*//')
    if [ "$base" == "$alt" ]; then echo "$id $s: same verdicts as z3-new" >> $out; else echo "$id $s: DIFFERENT"; diff <(echo "$base") <(echo "$alt") | head -10; fi >> $out
  done
done
echo DONE >> $out
