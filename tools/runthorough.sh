#!/bin/bash
# Runs the thorough tier of the given (or all claimed) checks one after another with a wall-clock cap each.
cap=${CAP:-3600}
ids=${@:-$(python3 -c "import json;print(' '.join(c['property_id'] for c in json.load(open('/verif/MANIFEST.json'))['checks']))")}
out=/verif/.cache/runthorough.log
for id in $ids; do
  s=$(date +%s)
  timeout $cap /verif/check $id thorough > /verif/.cache/thorough-$id.out 2>&1
  rc=$?
  e=$(date +%s)
  echo "$id rc=$rc secs=$((e-s)) $(grep -c '^VIOLATION' /verif/.cache/thorough-$id.out)v $(grep -c '^INCONCLUSIVE' /verif/.cache/thorough-$id.out)i $(grep -c '^KNOWN-FINDING' /verif/.cache/thorough-$id.out)k | $(tail -1 /verif/.cache/thorough-$id.out | cut -c1-160)" >> $out
done
echo DONE >> $out
