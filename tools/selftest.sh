#!/bin/bash
# usage: tools/selftest.sh [ID...] — for each seeded defect: clean tree must pass (exit 0), patched tree must alarm (exit 1).
# Applies the patch to /repo, runs the quick check, and undoes it straight afterwards.
cd /verif
IDS=${@:-$(ls seeded | grep '^C')}
for id in $IDS; do
  [ -f harness/$id/spec.json ] || { echo "$id: no harness"; continue; }
  git -C /repo diff --quiet || { echo "repo dirty, abort"; exit 2; }
  ./check $id quick > /tmp/selftest-$id-clean.log 2>&1; c=$?
  git -C /repo apply /verif/seeded/$id/patch.diff || { echo "$id: patch does not apply"; continue; }
  ./check $id quick > /tmp/selftest-$id-seed.log 2>&1; s=$?
  git -C /repo checkout -- .
  echo "$id clean_exit=$c seeded_exit=$s $( [ $c = 0 ] && [ $s = 1 ] && echo OK || echo MISMATCH ) | $(tail -1 /tmp/selftest-$id-clean.log | cut -c1-110)"
done
