#!/bin/bash
# usage: tools/selftest.sh [seed...] — for each seeded defect listed in seeded/MAP: the patched tree must
# raise an alarm (exit 1) in the quick tier of the mapped property's check. Works on a scratch worktree of
# /repo (VERIF_REPO), never on /repo itself; evidence/replays of these runs go to /tmp/verif-alt.
cd /verif
WT=/tmp/selftest-repo-$$
git -C /repo worktree add -q --detach $WT HEAD || exit 2
trap "git -C /repo worktree remove --force $WT" EXIT
want=" $* "
grep -v '^#' seeded/MAP | while read seed prop filter; do
  [ -z "$seed" ] && continue
  [ $# -gt 0 ] && [[ "$want" != *" $seed "* ]] && continue
  if [ "$prop" = "-" ]; then echo "$seed: not expected to be caught (see DESIGN.md 11.5)"; continue; fi
  git -C $WT checkout -q -- . && git -C $WT clean -fdq
  git -C $WT apply /verif/seeded/$seed/patch.diff 2>/dev/null || { echo "$seed: patch does not apply to the current tree"; continue; }
  VERIF_REPO=$WT ./check $prop quick $filter > /tmp/selftest-$seed.log 2>&1; s=$?
  echo "$seed -> $prop: exit=$s $( [ $s = 1 ] && echo CAUGHT || echo MISSED ) $(grep -c '^VIOLATION' /tmp/selftest-$seed.log) violations"
done
