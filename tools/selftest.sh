#!/bin/bash
# usage: tools/selftest.sh [ID...] — for each seeded defect: the patched tree must raise an alarm (exit 1).
# Works on a scratch worktree of /repo (VERIF_REPO), never on /repo itself; evidence/replays of these
# runs go to /tmp/verif-alt. The worktree is removed at the end.
cd /verif
WT=/tmp/selftest-repo-$$
git -C /repo worktree add -q --detach $WT HEAD || exit 2
trap "git -C /repo worktree remove --force $WT" EXIT
IDS=${@:-$(ls seeded | grep '^C')}
for id in $IDS; do
  [ -f harness/$id/spec.json ] || { echo "$id: no harness"; continue; }
  git -C $WT checkout -q -- . && git -C $WT clean -fdq
  git -C $WT apply /verif/seeded/$id/patch.diff || { echo "$id: patch does not apply"; continue; }
  VERIF_REPO=$WT ./check $id quick > /tmp/selftest-$id-seed.log 2>&1; s=$?
  echo "$id seeded_exit=$s $( [ $s = 1 ] && echo CAUGHT || echo MISSED ) | $(grep -c '^VIOLATION' /tmp/selftest-$id-seed.log) violations | $(tail -1 /tmp/selftest-$id-seed.log | cut -c1-100)"
done
