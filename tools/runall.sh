#!/bin/bash
# Runs the quick (or given) tier of every claimed check against /repo and summarises exit codes.
tier=${1:-quick}
out=/verif/.cache/runall-$tier.log
: > $out
for id in $(python3 -c "import json;print(' '.join(c['property_id'] for c in json.load(open('/verif/MANIFEST.json'))['checks']))"); do
  s=$(date +%s)
  /verif/check $id $tier > /verif/.cache/runall-$id-$tier.out 2>&1
  rc=$?
  e=$(date +%s)
  echo "$id rc=$rc secs=$((e-s)) $(grep -c '^VIOLATION' /verif/.cache/runall-$id-$tier.out) violations $(grep -c '^INCONCLUSIVE' /verif/.cache/runall-$id-$tier.out) inconclusive $(grep -c '^KNOWN-FINDING' /verif/.cache/runall-$id-$tier.out) known" >> $out
done
echo DONE >> $out
